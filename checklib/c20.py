"""Thorough-tier extra stages for C20: the reader workloads under Miri (undefined behaviour / data races in the
shared-reference paths, incl. rayon) and under ThreadSanitizer. A tool that cannot be built is recorded as
tool_unavailable in the evidence and the verdict rests on the scheduler and stress stages."""
import json
import os
import subprocess
import time


def _report(prop, sig, detail):
    return {"prop": prop, "evaluations": 1, "cases": 1, "distinct": [], "samples": [], "hist": {}, "notes": [], "exhaustive": False,
            "rule": "", "assumptions": [], "extra": {}, "inconclusive": None,
            "violations": [{"sig": sig, "detail": detail, "count": 1, "case": {}}]}


def extra(ctx):
    if ctx["tier"] != "thorough":
        return [], [], {}
    reports, problems, post = [], [], {}
    env = dict(ctx["env"])
    manifest = os.path.join(ctx["harness"], "Cargo.toml")
    work = os.path.join(ctx["workroot"], "san")
    os.makedirs(work, exist_ok=True)

    # --- Miri (tree borrows: crossbeam-epoch inside rayon is a known stacked-borrows false positive; leaks of the
    # rayon pool threads at exit are not judged)
    t0 = time.time()
    out = os.path.join(work, "miri.json")
    menv = dict(env, MIRIFLAGS="-Zmiri-disable-isolation -Zmiri-tree-borrows -Zmiri-ignore-leaks")
    cmd = ["cargo", "+nightly", "miri", "run", "--offline", "--manifest-path", manifest, "--target-dir", os.path.join(ctx["target"], "miri"),
           "--", "C20", "--variant", "miri", "--seed", str(ctx["seed"]), "--workdir", work, "--out", out]
    try:
        r = subprocess.run(cmd, stdout=subprocess.PIPE, stderr=subprocess.STDOUT, text=True, env=menv, timeout=3600)
        log = r.stdout
        if "Undefined Behavior" in log or "Data race detected" in log:
            lines = [l for l in log.splitlines() if l.startswith("error:")]
            frames = [l.strip() for l in log.splitlines() if "/repo/src/" in l][:6]
            cls = "stam" if frames else "dependency"
            reports.append(_report("C20", "C20/miri/%s/%s" % (cls, (lines[0] if lines else "error")[:80].replace(" ", "_")),
                                   {"tool": "miri", "errors": lines[:5], "frames_in_repo": frames, "log_tail": log[-3000:]}))
            post["miri"] = {"status": "report", "seconds": round(time.time() - t0, 1)}
        elif r.returncode == 0 and os.path.exists(out):
            rep = json.load(open(out, encoding="utf-8"))
            reports.append(rep)
            post["miri"] = {"status": "clean", "seconds": round(time.time() - t0, 1), "evaluations": rep["evaluations"], "flags": menv["MIRIFLAGS"]}
        else:
            post["miri"] = {"status": "tool_unavailable", "exit": r.returncode, "log_tail": log[-800:]}
    except (subprocess.TimeoutExpired, OSError) as e:
        post["miri"] = {"status": "tool_unavailable", "why": str(e)[:200]}

    # --- ThreadSanitizer (needs -Zbuild-std; exit code 66 = report)
    t0 = time.time()
    out = os.path.join(work, "tsan.json")
    tenv = dict(env, RUSTFLAGS="-Zsanitizer=thread", TSAN_OPTIONS="halt_on_error=0 exitcode=66")
    tdir = os.path.join(ctx["target"], "tsan")
    try:
        b = subprocess.run(["cargo", "+nightly", "build", "--offline", "-Zbuild-std", "--target", "x86_64-unknown-linux-gnu",
                            "--manifest-path", manifest, "--target-dir", tdir],
                           stdout=subprocess.PIPE, stderr=subprocess.STDOUT, text=True, env=tenv, timeout=3600)
        binary = os.path.join(tdir, "x86_64-unknown-linux-gnu", "debug", "monitor")
        if b.returncode != 0 or not os.path.exists(binary):
            post["tsan"] = {"status": "tool_unavailable", "log_tail": b.stdout[-800:]}
        else:
            r = subprocess.run([binary, "C20", "--variant", "tsan", "--seed", str(ctx["seed"]), "--workdir", work, "--out", out],
                               stdout=subprocess.PIPE, stderr=subprocess.STDOUT, text=True, env=tenv, timeout=3600, cwd=work)
            blocks = r.stdout.count("WARNING: ThreadSanitizer")
            if blocks or r.returncode == 66:
                frames = [l.strip() for l in r.stdout.splitlines() if "/repo/src/" in l][:8]
                reports.append(_report("C20", "C20/tsan/data-race/%s" % ("stam" if frames else "dependency"),
                                       {"tool": "tsan", "report_blocks": blocks, "frames_in_repo": frames, "log_tail": r.stdout[-3000:]}))
                post["tsan"] = {"status": "report", "report_blocks": blocks}
            elif r.returncode == 0 and os.path.exists(out):
                rep = json.load(open(out, encoding="utf-8"))
                reports.append(rep)
                post["tsan"] = {"status": "clean", "seconds": round(time.time() - t0, 1), "evaluations": rep["evaluations"]}
            else:
                post["tsan"] = {"status": "tool_unavailable", "exit": r.returncode, "log_tail": r.stdout[-800:]}
    except (subprocess.TimeoutExpired, OSError) as e:
        post["tsan"] = {"status": "tool_unavailable", "why": str(e)[:200]}
    return reports, problems, post
