//! C03 — public identifiers resolve to exactly the live item that carries them.
//! After every operation of a history a probe set of lookup strings is resolved for every kind of item and
//! compared with the shadow model's id tables; duplicate-id insertions must change nothing; terminal
//! strip-ids / reindex steps are judged against the model.

use crate::c01::check_state;
use crate::gen::{Gen, GenCfg};
use crate::hist::*;
use crate::model::*;
use crate::obs;
use crate::util::*;
use serde_json::{json, Value};
use stam::*;

const LETTERS: [&str; 11] = ["A", "S", "D", "K", "R", "T", "X", "I", "Z", "É", "a"];

/// parse a canonical temporary id `!<L><digits>`; returns (letter, number, canonical?)
fn parse_temp(s: &str) -> Option<(String, Option<usize>, bool)> {
    let mut it = s.chars();
    if it.next()? != '!' {
        return None;
    }
    let l = it.next()?;
    let rest: String = it.collect();
    let digits = !rest.is_empty() && rest.chars().all(|c| c.is_ascii_digit());
    let canonical = digits && (rest == "0" || !rest.starts_with('0'));
    Some((l.to_string(), rest.parse::<usize>().ok().filter(|_| digits), canonical))
}

struct Expect {
    /// the handle that must be returned, or None if the lookup must fail; `free` = not judged beyond "no panic, and whatever is returned is live and plausible"
    handle: Option<usize>,
    free: bool,
}

thread_local! {
    /// the store under examination has temporary ids switched off
    static NO_TEMP_IDS: std::cell::Cell<bool> = std::cell::Cell::new(false);
}

fn expect(live_by_id: Option<usize>, live_handle: impl Fn(usize) -> bool, letter: &str, s: &str) -> Expect {
    if let Some(h) = live_by_id {
        // a public id that looks like a temporary id is never generated, so an id match is unambiguous
        return Expect { handle: Some(h), free: false };
    }
    match parse_temp(s) {
        Some((l, Some(n), true)) => {
            if l == letter && live_handle(n) && !NO_TEMP_IDS.with(|f| f.get()) {
                Expect { handle: Some(n), free: false }
            } else {
                Expect { handle: None, free: false }
            }
        }
        Some((_, _, _)) => Expect { handle: None, free: true },
        None => Expect { handle: None, free: false },
    }
}

fn judge(rep: &mut Report, kind: &str, s: &str, got: Result<Option<(usize, Option<String>)>, Panic>, exp: &Expect, item_live_with: impl Fn(usize) -> Option<Option<String>>, h: &History) {
    rep.eval();
    let class = |s: &str| -> String {
        match parse_temp(s) {
            Some((l, n, canon)) => format!(
                "temp-id/{}{}",
                if l.chars().all(|c| c.is_ascii_uppercase()) { "upper" } else if l.is_ascii() { "lower" } else { "non-ascii" },
                match (n, canon) {
                    (Some(_), true) => "/canonical",
                    (Some(_), false) => "/leading-zero",
                    (None, _) => "/non-numeric",
                }
            ),
            None => "plain".into(),
        }
    };
    rep.distinct(&format!("{}/{}/{}", kind, class(s), if exp.free { "free" } else if exp.handle.is_some() { "resolves" } else { "must-not-resolve" }));
    match got {
        Err(p) => rep.violation(
            format!("C03/lookup/{}/panic/{}/{}", kind, class(s), p.class()),
            json!({"lookup": s, "panic": p.msg, "at": p.loc, "history": h.replay_json()}),
        ),
        Ok(None) => {
            if let Some(want) = exp.handle {
                rep.violation(
                    format!("C03/lookup/{}/live-id-not-found/{}", kind, class(s)),
                    json!({"lookup": s, "expected_handle": want, "history": h.replay_json()}),
                );
            }
        }
        Ok(Some((gh, gid))) => {
            // whatever is returned must be a live item...
            match item_live_with(gh) {
                None => rep.violation(
                    format!("C03/lookup/{}/returns-dead-item/{}", kind, class(s)),
                    json!({"lookup": s, "got_handle": gh, "history": h.replay_json()}),
                ),
                Some(model_id) => {
                    if model_id != gid {
                        rep.violation(
                            format!("C03/lookup/{}/item-carries-other-id/{}", kind, class(s)),
                            json!({"lookup": s, "got_handle": gh, "item_id": gid, "model_id": model_id, "history": h.replay_json()}),
                        );
                    }
                }
            }
            if exp.free {
                return;
            }
            match exp.handle {
                None => rep.violation(
                    format!("C03/lookup/{}/resolves-but-should-not/{}", kind, class(s)),
                    json!({"lookup": s, "got_handle": gh, "item_id": gid, "history": h.replay_json()}),
                ),
                Some(want) if want != gh => rep.violation(
                    format!("C03/lookup/{}/redirected/{}", kind, class(s)),
                    json!({"lookup": s, "got_handle": gh, "expected_handle": want, "history": h.replay_json()}),
                ),
                _ => {}
            }
        }
    }
}

pub fn probes(rng: &mut Rng, m: &Model) -> Vec<String> {
    let mut v: Vec<String> = Vec::new();
    for r in m.resources.values() {
        v.push(r.id.clone());
    }
    for s in m.sets.values() {
        v.push(s.id.clone());
        v.extend(s.keys.values().map(|k| k.id.clone()));
        v.extend(s.data.values().filter_map(|d| d.id.clone()));
    }
    v.extend(m.anns.values().filter_map(|a| a.id.clone()));
    for (_, id) in &m.dead_ids {
        v.push(id.split('\u{1}').last().unwrap_or("").to_string());
    }
    // temporary-id syntax with any letter and any digit string
    let maxh = m.next_ann.max(m.next_res).max(m.next_set).max(m.sets.values().map(|s| s.next_data.max(s.next_key)).max().unwrap_or(0));
    let mut nums: Vec<String> = (0..=maxh + 1).map(|n| n.to_string()).collect();
    nums.extend(["65536", "65537", "4294967297", "4294967296", "18446744073709551616", "99999999999999999999999", "+1", "01", "", "-1", "1 ", "1a", "٣"].iter().map(|s| s.to_string()));
    for l in LETTERS.iter() {
        for _ in 0..4 {
            v.push(format!("!{}{}", l, rng.pick(&nums)));
        }
    }
    for n in 0..=maxh.min(6) {
        for l in ["A", "R", "S", "K", "D"] {
            v.push(format!("!{}{}", l, n));
        }
    }
    v.extend(["", "!", "!A", "!É", "!😀1", " ", "a\u{0}b", "日本語", "\u{feff}", "!!A1", "A1", "a1 "].iter().map(|s| s.to_string()));
    v.sort();
    v.dedup();
    v
}

pub fn probe_all(h: &History, rep: &mut Report, rng: &mut Rng) {
    let m = &h.model;
    NO_TEMP_IDS.with(|f| f.set(m.no_temp_ids));
    let store = &h.store;
    for s in probes(rng, m) {
        let s = s.as_str();
        // annotations
        let by_id = m.ann(&Ref::Id(s.to_string()));
        let exp = expect(by_id, |n| m.anns.contains_key(&n), "A", s);
        let got = guard(|| store.annotation(s).map(|x| (x.handle().as_usize(), x.id().map(|i| i.to_string()))));
        judge(rep, "annotation", s, got.clone(), &exp, |n| m.anns.get(&n).map(|a| a.id.clone()), h);
        // resolve_annotation_id agrees with the getter
        if let Ok(g) = &got {
            rep.eval();
            match guard(|| store.resolve_annotation_id(s)) {
                Ok(r) => {
                    let rh = r.ok().map(|x| x.as_usize());
                    if rh != g.as_ref().map(|x| x.0) {
                        rep.violation(
                            format!("C03/resolve_annotation_id/disagrees-with-getter/{}", if parse_temp(s).is_some() { "temp-id" } else { "plain" }),
                            json!({"lookup": s, "resolve": rh, "getter": g, "history": h.replay_json()}),
                        );
                    }
                }
                Err(p) => rep.violation(format!("C03/resolve_annotation_id/panic/{}", p.class()), json!({"lookup": s, "panic": p.msg})),
            }
        }
        // resources
        let by_id = m.res(&Ref::Id(s.to_string()));
        let exp = expect(by_id, |n| m.resources.contains_key(&n), "R", s);
        let got = guard(|| store.resource(s).map(|x| (x.handle().as_usize(), x.id().map(|i| i.to_string()))));
        judge(rep, "resource", s, got.clone(), &exp, |n| m.resources.get(&n).map(|a| Some(a.id.clone())), h);
        if let Ok(g) = &got {
            rep.eval();
            if let Ok(r) = guard(|| store.resolve_resource_id(s)) {
                let rh = r.ok().map(|x| x.as_usize());
                if rh != g.as_ref().map(|x| x.0) {
                    rep.violation(
                        format!("C03/resolve_resource_id/disagrees-with-getter/{}", if parse_temp(s).is_some() { "temp-id" } else { "plain" }),
                        json!({"lookup": s, "resolve": rh, "getter": g, "history": h.replay_json()}),
                    );
                }
            }
        }
        // datasets
        let by_id = m.set(&Ref::Id(s.to_string()));
        let exp = expect(by_id, |n| m.sets.contains_key(&n), "S", s);
        let got = guard(|| store.dataset(s).map(|x| (x.handle().as_usize(), x.id().map(|i| i.to_string()))));
        judge(rep, "dataset", s, got.clone(), &exp, |n| m.sets.get(&n).map(|a| Some(a.id.clone())), h);
        if let Ok(g) = &got {
            rep.eval();
            if let Ok(r) = guard(|| store.resolve_dataset_id(s)) {
                let rh = r.ok().map(|x| x.as_usize());
                if rh != g.as_ref().map(|x| x.0) {
                    rep.violation(
                        format!("C03/resolve_dataset_id/disagrees-with-getter/{}", if parse_temp(s).is_some() { "temp-id" } else { "plain" }),
                        json!({"lookup": s, "resolve": rh, "getter": g, "history": h.replay_json()}),
                    );
                }
            }
        }
        // substores: there are none in these histories
        rep.eval();
        match guard(|| store.substore(s).is_some()) {
            Ok(true) => rep.violation("C03/lookup/substore/resolves-but-should-not", json!({"lookup": s, "history": h.replay_json()})),
            Err(p) => rep.violation(format!("C03/lookup/substore/panic/{}", p.class()), json!({"lookup": s, "panic": p.msg})),
            _ => {}
        }
        // keys and data per dataset (addressed by id and by handle)
        for set in m.sets.values() {
            let by_id = m.key(set.handle, &Ref::Id(s.to_string()));
            let exp = expect(by_id, |n| set.keys.contains_key(&n), "K", s);
            let got = guard(|| store.key(set.id.as_str(), s).map(|x| (x.handle().as_usize(), x.id().map(|i| i.to_string()))));
            judge(rep, "key", s, got, &exp, |n| set.keys.get(&n).map(|a| Some(a.id.clone())), h);
            let by_id = m.data(set.handle, &Ref::Id(s.to_string()));
            let exp = expect(by_id, |n| set.data.contains_key(&n), "D", s);
            let got = guard(|| {
                store
                    .annotationdata(AnnotationDataSetHandle::new(set.handle), s)
                    .map(|x| (x.handle().as_usize(), x.id().map(|i| i.to_string())))
            });
            judge(rep, "data", s, got, &exp, |n| set.data.get(&n).map(|a| a.id.clone()), h);
        }
    }
}

/// a duplicate-id insertion that must be refused (different content) or be a no-op (identical content)
fn gen_duplicate(rng: &mut Rng, m: &Model) -> Option<(Op, bool)> {
    match rng.below(4) {
        0 => {
            let r = m.resources.values().nth(rng.below(m.resources.len().max(1)))?;
            let identical = rng.chance(1, 2);
            let text: String = if identical { r.text.iter().collect() } else { format!("{}x", r.text.iter().collect::<String>()) };
            Some((Op::AddResource { id: r.id.clone(), text }, identical))
        }
        1 => {
            let s = m.sets.values().nth(rng.below(m.sets.len().max(1)))?;
            Some((Op::AddDataset { id: s.id.clone(), items: vec![("newkey".into(), DataValue::Int(7), None)] }, false))
        }
        _ => {
            // re-use the exact target and data of an existing annotation, under an id that is in use
            let withid: Vec<&MAnn> = m.anns.values().filter(|a| a.id.is_some()).collect();
            if withid.is_empty() {
                return None;
            }
            let a = *rng.pick(&withid);
            let other = *rng.pick(&withid);
            let identical = a.handle == other.handle;
            let target = sel_to_req(m, &other.target)?;
            let data: Vec<DataReq> = other
                .data
                .iter()
                .map(|(s, d)| DataReq { set: Ref::Handle(*s), id: Ref::Handle(*d), key: Ref::None, value: DataValue::Null })
                .collect();
            Some((Op::Annotate(AnnReq { id: a.id.clone(), target: Some(target), data }), identical))
        }
    }
}

/// rebuild a request that resolves to exactly the given stored selector
pub fn sel_to_req(m: &Model, s: &MSel) -> Option<SelReq> {
    Some(match s {
        MSel::Text { res, b, e, mode } => {
            let len = m.resources.get(res)?.text.len();
            let modeidx = ["BeginBegin", "BeginEnd", "EndBegin", "EndEnd"].iter().position(|x| x == mode).unwrap_or(0);
            SelReq::Text(Ref::Handle(*res), crate::gen::offset_in_mode(len, *b, *e, modeidx))
        }
        MSel::Ann { ann, off: None } => SelReq::Ann(Ref::Handle(*ann), None),
        MSel::Ann { ann, off: Some((_, b, e, mode)) } => {
            let (_, pb, pe) = m.parent_range(*ann)?;
            let modeidx = ["BeginBegin", "BeginEnd", "EndBegin", "EndEnd"].iter().position(|x| x == mode).unwrap_or(0);
            SelReq::Ann(Ref::Handle(*ann), Some(crate::gen::offset_in_mode(pe - pb, b - pb, e - pb, modeidx)))
        }
        MSel::Res(r) => SelReq::Res(Ref::Handle(*r)),
        MSel::Set(x) => SelReq::Set(Ref::Handle(*x)),
        MSel::Key(x, k) => SelReq::Key(Ref::Handle(*x), Ref::Handle(*k)),
        MSel::Data(x, d) => SelReq::Data(Ref::Handle(*x), Ref::Handle(*d)),
        MSel::Multi(v) => SelReq::Multi(v.iter().map(|x| sel_to_req(m, x)).collect::<Option<Vec<_>>>()?),
        MSel::Composite(v) => SelReq::Composite(v.iter().map(|x| sel_to_req(m, x)).collect::<Option<Vec<_>>>()?),
        MSel::Directional(v) => SelReq::Directional(v.iter().map(|x| sel_to_req(m, x)).collect::<Option<Vec<_>>>()?),
    })
}

fn has_gaps(m: &Model) -> bool {
    let gap = |keys: Vec<usize>, next: usize| keys.len() != next;
    gap(m.anns.keys().copied().collect(), m.next_ann) || gap(m.resources.keys().copied().collect(), m.next_res) || gap(m.sets.keys().copied().collect(), m.next_set)
}

fn terminal(mut h: History, rep: &mut Report, rng: &mut Rng) {
    match rng.below(3) {
        0 => {
            rep.count("terminal/strip_annotation_ids");
            let r = guard(|| h.store.strip_annotation_ids());
            if let Err(p) = r {
                rep.violation(format!("C03/strip_annotation_ids/panic/{}", p.class()), json!({"panic": p.msg, "history": h.replay_json()}));
                return;
            }
            for a in h.model.anns.values_mut() {
                if let Some(id) = a.id.take() {
                    h.model.dead_ids.insert(('A', id));
                }
            }
            check_state(&h, rep, "strip_annotation_ids", "C03", true);
            probe_all(&h, rep, rng);
        }
        1 => {
            rep.count("terminal/strip_data_ids");
            let r = guard(|| h.store.strip_data_ids());
            if let Err(p) = r {
                rep.violation(format!("C03/strip_data_ids/panic/{}", p.class()), json!({"panic": p.msg, "history": h.replay_json()}));
                return;
            }
            let mut dead = Vec::new();
            for s in h.model.sets.values_mut() {
                for d in s.data.values_mut() {
                    if let Some(id) = d.id.take() {
                        dead.push(('D', format!("{}\u{1}{}", s.id, id)));
                    }
                }
            }
            h.model.dead_ids.extend(dead);
            check_state(&h, rep, "strip_data_ids", "C03", true);
            probe_all(&h, rep, rng);
        }
        _ => {
            let gaps = has_gaps(&h.model);
            rep.count(if gaps { "terminal/reindex/with-gaps" } else { "terminal/reindex/no-gaps" });
            let replay = h.replay_json();
            let model = h.model.clone();
            let store = h.store;
            let r = guard(move || store.reindex());
            let store = match r {
                Ok(s) => s,
                Err(p) => {
                    rep.violation(
                        format!("C03/reindex/{}/panic/{}", if gaps { "after-gaps" } else { "no-gaps" }, p.class()),
                        json!({"panic": p.msg, "at": p.loc, "history": replay}),
                    );
                    return;
                }
            };
            rep.eval();
            // every live id must resolve to an item carrying that id and the same content; handles may change
            let want = model.observe(false, false);
            let got: Result<Value, Panic> = obs::observe(&store, false, false);
            let bad: Option<Value> = match got {
                Err(p) => Some(json!({"panic": p.msg, "at": p.loc})),
                Ok(got) => first_diff(&want, &got, "").map(|(path, m, r)| json!({"path": path, "model": m, "library": r})),
            };
            // id lookups after compaction
            let mut redirected: Option<Value> = None;
            for a in model.anns.values() {
                if let Some(id) = &a.id {
                    let ok = guard(|| store.annotation(id.as_str()).map(|x| x.id().map(|i| i.to_string()))).ok().flatten().flatten();
                    if ok.as_deref() != Some(id.as_str()) && redirected.is_none() {
                        redirected = Some(json!({"annotation_id": id, "resolves_to_item_with_id": ok}));
                    }
                }
            }
            if bad.is_some() || redirected.is_some() {
                if gaps {
                    // root cause (DESIGN 2.2 row 9): reindex() compacts the three stores but does not remap selectors,
                    // annotation data references, id maps (off by one) and most reverse indices
                    rep.violation(
                        "C03/reindex/after-gaps/explained:handles-compacted-but-references-not-remapped",
                        json!({"content": bad, "lookup": redirected, "history": replay}),
                    );
                } else {
                    rep.violation("C03/reindex/no-gaps/store-changed", json!({"content": bad, "lookup": redirected, "history": replay}));
                }
            }
        }
    }
}

pub fn run(p: &Params, rep: &mut Report) {
    rep.rule = "seeded op-histories (as C01) extended with duplicate-id insertions (identical / different content), id-less items and removals; after every operation ~150 lookup strings (all ids ever used incl. removed ones, '!<L><n>' for 11 letters x live/dead/out-of-range/overflowing/non-canonical numbers, Unicode, empty) are resolved for annotations, resources, datasets, substores and per-dataset keys and data, through the getters and resolve_*_id, and compared with the model's id tables. Terminal strip_annotation_ids / strip_data_ids / reindex steps. distinct_nontrivial = distinct (kind, lookup class, expected outcome) combinations".into();
    rep.assumptions = vec![
        "public ids that themselves look like temporary ids ('!A0') are not generated (the format reserves them)".into(),
        "non-canonical temporary ids ('!A01', '!A+1', '!a1') are only required not to panic and not to return a dead or unrelated item".into(),
    ];
    let total: u64 = if p.thorough { 20000 } else { 1500 };
    for k in p.cases(total) {
        rep.current_case = p.case_coord(k);
        rep.cases += 1;
        let mut rng = Rng::new(p.seed, "c03", k);
        // one history in six runs on a store with temporary ids switched off (the configuration given at construction, or applied
        // to the still empty store afterwards): `!A0` is then just a string that nothing carries
        let no_temp = rng.chance(1, 6);
        let mut h = if no_temp { History::new_no_temp_ids(100, rng.chance(1, 2), rng.chance(1, 2)) } else { History::new(100, rng.chance(1, 2)) };
        let mut cfg = GenCfg::default();
        cfg.by_temp_id = !no_temp;
        cfg.hostile_ids = rng.chance(1, 2);
        cfg.max_anns = 10;
        cfg.protect = false;
        let mut g = Gen::new(cfg);
        let nops = rng.range(4, if p.thorough { 30 } else { 18 }) as usize;
        let mut alive = true;
        for i in 0..nops {
            // duplicate-id insertions at a fixed rate
            if i > 2 && rng.chance(1, 5) {
                if let Some((op, identical)) = gen_duplicate(&mut rng, &h.model) {
                    let before = obs::observe(&h.store, true, true);
                    let r = h.step(&op);
                    rep.eval();
                    rep.count(&format!("duplicate/{}/{}", op.kind(), if identical { "identical" } else { "different" }));
                    rep.distinct(&format!("duplicate/{}/{}/{}", op.kind(), identical, r.agreement.class()));
                    match &r.agreement {
                        Agreement::Ok | Agreement::Refused => {}
                        Agreement::RealOkModelErr(_) | Agreement::Handle { .. } => rep.violation(
                            format!("C03/duplicate-id/{}/accepted-as-new-item", op.kind()),
                            json!({"outcome": r.outcome.to_json(), "history": h.replay_json()}),
                        ),
                        Agreement::RealErrModelOk(e) => rep.violation(
                            format!("C03/duplicate-id/{}/identical-item-refused", op.kind()),
                            json!({"error": e, "history": h.replay_json()}),
                        ),
                        Agreement::Panic(pn) => rep.violation(format!("C03/duplicate-id/{}/panic/{}", op.kind(), pn.class()), json!({"panic": pn.msg, "history": h.replay_json()})),
                        Agreement::Unspecified(_) => {}
                    }
                    // nothing may have changed either way
                    let after = obs::observe(&h.store, true, true);
                    if let (Ok(b), Ok(a)) = (&before, &after) {
                        if let Some((path, x, y)) = first_diff(b, a, "") {
                            rep.violation(
                                format!("C03/duplicate-id/{}/store-changed{}", op.kind(), path_class(&path)),
                                json!({"path": path, "before": x, "after": y, "history": h.replay_json()}),
                            );
                        }
                    }
                    h.ended = None;
                    continue;
                }
            }
            let op = g.gen_op(&mut rng, &h.model);
            let r = h.step(&op);
            rep.count(&format!("op/{}", op.kind()));
            if !r.agreement.in_step() {
                rep.count(&format!("history-ended/{}", r.agreement.class()));
                alive = false;
                break;
            }
            probe_all(&h, rep, &mut rng);
        }
        // coverage classes: which kinds of probes resolved
        rep.distinct(&format!("shape/{}", h.model.shape()));
        if k % 53 == 0 {
            rep.sample(json!({"case": k, "history": h.replay_json(), "probes": probes(&mut rng, &h.model).into_iter().take(25).collect::<Vec<_>>()}));
        }
        if alive {
            terminal(h, rep, &mut rng);
        }
    }
}
