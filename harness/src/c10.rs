//! C10 — annotation data is a deduplicated vocabulary and data search equals a scan.
//! (i) exactly-once over the event log: every id-less (set,key,value) maps to one handle for the whole history
//!     (handle prediction of the shadow model), no two live id-less items with equal key and value, one key per id;
//! (ii) index vs scan: find_data / test_data / data_by_value / key.data() = filter of all data by the library's own
//!     DataValue::test; (iii) semantics: DataValue::test = an independent reference written from the doc comments of
//!     DataOperator, on the cross product of a value pool and an operator pool (Not/And/Or nested two deep).

use crate::gen::{Gen, GenCfg};
use crate::hist::*;
use crate::model::*;
use crate::util::*;
use serde_json::json;
use stam::*;
use std::borrow::Cow;

fn dt(s: &str) -> chrono::DateTime<chrono::FixedOffset> {
    chrono::DateTime::parse_from_rfc3339(s).expect("datetime")
}

pub fn value_pool() -> Vec<DataValue> {
    vec![
        DataValue::Null,
        DataValue::Bool(true),
        DataValue::Bool(false),
        DataValue::Int(5),
        DataValue::Int(-1),
        DataValue::Int(0),
        DataValue::Int(isize::MAX),
        DataValue::Int(isize::MIN),
        DataValue::Float(5.0),
        DataValue::Float(4.5),
        // beyond 2^53 neighbouring integers are the same f64
        DataValue::Int(9007199254740993),
        DataValue::Float(9007199254740992.0),
        DataValue::Float(-0.0),
        DataValue::Float(1e300),
        // neighbours closer than f64::EPSILON, tiny and infinite values: equality is exact
        DataValue::Float(0.3),
        DataValue::Float(0.1 + 0.2),
        DataValue::Float(1e-20),
        DataValue::Float(f64::INFINITY),
        DataValue::Float(f64::NEG_INFINITY),
        DataValue::List(vec![DataValue::Float(0.1 + 0.2)]),
        DataValue::String("5".into()),
        DataValue::String("5.0".into()),
        DataValue::String("true".into()),
        DataValue::String("x".into()),
        DataValue::String("".into()),
        DataValue::String("é 日".into()),
        DataValue::String("2024-02-29T23:59:59+00:00".into()),
        DataValue::Datetime(dt("2024-02-29T23:59:59+00:00")),
        DataValue::Datetime(dt("2024-03-01T01:59:59+02:00")),
        DataValue::Datetime(dt("1999-12-31T00:00:00-11:30")),
        DataValue::List(vec![]),
        DataValue::List(vec![DataValue::Int(5), DataValue::String("x".into())]),
        DataValue::List(vec![DataValue::Float(4.5), DataValue::List(vec![DataValue::String("x".into())])]),
    ]
}

pub fn base_operators() -> Vec<DataOperator<'static>> {
    vec![
        DataOperator::Null,
        DataOperator::Any,
        DataOperator::True,
        DataOperator::False,
        DataOperator::Equals(Cow::Borrowed("5")),
        DataOperator::Equals(Cow::Borrowed("x")),
        DataOperator::Equals(Cow::Borrowed("")),
        DataOperator::Equals(Cow::Borrowed("4.5")),
        // numeric strings that are not integer literals: an Int value is compared as an integer, exactly
        DataOperator::Equals(Cow::Borrowed("5.0")),
        DataOperator::Equals(Cow::Borrowed("5e0")),
        DataOperator::Equals(Cow::Borrowed("5.")),
        DataOperator::Equals(Cow::Borrowed("9007199254740992")),
        DataOperator::Equals(Cow::Borrowed("2024-02-29T23:59:59+00:00")),
        DataOperator::EqualsInt(5),
        DataOperator::EqualsInt(0),
        DataOperator::EqualsFloat(5.0),
        DataOperator::EqualsFloat(0.0),
        DataOperator::EqualsFloat(0.3),
        DataOperator::EqualsFloat(f64::INFINITY),
        DataOperator::HasElementFloat(0.3),
        DataOperator::GreaterThanFloat(0.3),
        DataOperator::LessThanOrEqualFloat(0.3),
        DataOperator::GreaterThan(4),
        DataOperator::GreaterThanOrEqual(5),
        DataOperator::LessThan(5),
        DataOperator::LessThanOrEqual(-1),
        DataOperator::GreaterThanFloat(4.5),
        DataOperator::GreaterThanOrEqualFloat(4.5),
        DataOperator::LessThanFloat(5.0),
        DataOperator::LessThanOrEqualFloat(-0.0),
        DataOperator::ExactDatetime(dt("2024-03-01T01:59:59+02:00")),
        DataOperator::AfterDatetime(dt("2000-01-01T00:00:00+00:00")),
        DataOperator::BeforeDatetime(dt("2000-01-01T00:00:00+00:00")),
        DataOperator::AtOrAfterDatetime(dt("2024-02-29T23:59:59+00:00")),
        DataOperator::AtOrBeforeDatetime(dt("2024-02-29T23:59:59+00:00")),
        DataOperator::HasElement(Cow::Borrowed("x")),
        DataOperator::HasElementInt(5),
        DataOperator::HasElementFloat(4.5),
    ]
}

pub fn operator_pool(rng: &mut Rng, extra: usize) -> Vec<DataOperator<'static>> {
    let base = base_operators();
    let mut v = base.clone();
    for op in &base {
        v.push(DataOperator::Not(Box::new(op.clone())));
    }
    for _ in 0..extra {
        let n = rng.range(0, 3) as usize;
        let parts: Vec<DataOperator<'static>> = (0..n)
            .map(|_| {
                let a = rng.pick(&base).clone();
                match rng.below(4) {
                    0 => DataOperator::Not(Box::new(a)),
                    1 => DataOperator::And(vec![a, rng.pick(&base).clone()]),
                    2 => DataOperator::Or(vec![a, DataOperator::Not(Box::new(rng.pick(&base).clone()))]),
                    _ => a,
                }
            })
            .collect();
        v.push(if rng.chance(1, 2) { DataOperator::And(parts) } else { DataOperator::Or(parts) });
    }
    v
}

/// Reference semantics written from the doc comments of DataOperator. None = the documentation does not settle it.
pub fn ref_test(v: &DataValue, op: &DataOperator) -> Option<bool> {
    use DataOperator as O;
    use DataValue as V;
    Some(match (v, op) {
        (_, O::Any) => true,
        (_, O::Not(inner)) => !ref_test(v, inner)?,
        (_, O::And(ops)) => {
            let mut all = true;
            let mut unknown = false;
            for o in ops {
                match ref_test(v, o) {
                    Some(false) => return Some(false),
                    Some(true) => {}
                    None => unknown = true,
                }
                let _ = &mut all;
            }
            if unknown {
                return None;
            }
            all
        }
        (_, O::Or(ops)) => {
            let mut unknown = false;
            for o in ops {
                match ref_test(v, o) {
                    Some(true) => return Some(true),
                    Some(false) => {}
                    None => unknown = true,
                }
            }
            if unknown {
                return None;
            }
            false
        }
        (V::Null, O::Null) => true,
        (_, O::Null) => false,
        (V::Bool(b), O::True) => *b,
        (V::Bool(b), O::False) => !*b,
        (_, O::True) | (_, O::False) => false,
        // "Tests against a string"
        (V::String(s), O::Equals(t)) => s.as_str() == t.as_ref(),
        // numeric / datetime value against a string: equal iff the string denotes the same value
        (V::Int(n), O::Equals(t)) => t.parse::<isize>().map(|x| x == *n).unwrap_or(false),
        (V::Float(f), O::Equals(t)) => t.parse::<f64>().map(|x| x == *f).unwrap_or(false),
        (V::Datetime(d), O::Equals(t)) => chrono::DateTime::parse_from_rfc3339(t).map(|x| x == *d).unwrap_or(false),
        (V::Bool(_), O::Equals(_)) => return None, // truthiness of strings is not documented
        (_, O::Equals(_)) => false,
        (V::Int(n), O::EqualsInt(m)) => n == m,
        (V::Float(_), O::EqualsInt(_)) => return None,
        (_, O::EqualsInt(_)) => false,
        (V::Float(f), O::EqualsFloat(g)) => f == g,
        (V::Int(_), O::EqualsFloat(_)) => return None,
        (_, O::EqualsFloat(_)) => false,
        // "The datavalue must be numeric and greater/less than ..."
        (V::Int(n), O::GreaterThan(m)) => n > m,
        (V::Int(n), O::GreaterThanOrEqual(m)) => n >= m,
        (V::Int(n), O::LessThan(m)) => n < m,
        (V::Int(n), O::LessThanOrEqual(m)) => n <= m,
        (V::Float(f), O::GreaterThan(m)) => *f > *m as f64,
        (V::Float(f), O::GreaterThanOrEqual(m)) => *f >= *m as f64,
        (V::Float(f), O::LessThan(m)) => *f < *m as f64,
        (V::Float(f), O::LessThanOrEqual(m)) => *f <= *m as f64,
        (V::Float(f), O::GreaterThanFloat(g)) => f > g,
        (V::Float(f), O::GreaterThanOrEqualFloat(g)) => f >= g,
        (V::Float(f), O::LessThanFloat(g)) => f < g,
        (V::Float(f), O::LessThanOrEqualFloat(g)) => f <= g,
        (V::Int(n), O::GreaterThanFloat(g)) => (*n as f64) > *g,
        (V::Int(n), O::GreaterThanOrEqualFloat(g)) => (*n as f64) >= *g,
        (V::Int(n), O::LessThanFloat(g)) => (*n as f64) < *g,
        (V::Int(n), O::LessThanOrEqualFloat(g)) => (*n as f64) <= *g,
        (_, O::GreaterThan(_)) | (_, O::GreaterThanOrEqual(_)) | (_, O::LessThan(_)) | (_, O::LessThanOrEqual(_)) => false,
        (_, O::GreaterThanFloat(_)) | (_, O::GreaterThanOrEqualFloat(_)) | (_, O::LessThanFloat(_)) | (_, O::LessThanOrEqualFloat(_)) => false,
        // "The datavalue must be a datetime and ..."
        (V::Datetime(d), O::ExactDatetime(e)) => d == e,
        (V::Datetime(d), O::AfterDatetime(e)) => d > e,
        (V::Datetime(d), O::BeforeDatetime(e)) => d < e,
        (V::Datetime(d), O::AtOrAfterDatetime(e)) => d >= e,
        (V::Datetime(d), O::AtOrBeforeDatetime(e)) => d <= e,
        (_, O::ExactDatetime(_)) | (_, O::AfterDatetime(_)) | (_, O::BeforeDatetime(_)) | (_, O::AtOrAfterDatetime(_)) | (_, O::AtOrBeforeDatetime(_)) => false,
        (V::List(l), O::HasElement(s)) => {
            let mut unknown = false;
            for e in l {
                match ref_test(e, &O::Equals(s.clone())) {
                    Some(true) => return Some(true),
                    None => unknown = true,
                    _ => {}
                }
            }
            if unknown {
                return None;
            }
            false
        }
        (V::List(l), O::HasElementInt(n)) => l.iter().any(|e| matches!(e, V::Int(x) if x == n)),
        (V::List(l), O::HasElementFloat(f)) => l.iter().any(|e| matches!(e, V::Float(x) if x == f)),
        (_, O::HasElement(_)) | (_, O::HasElementInt(_)) | (_, O::HasElementFloat(_)) => false,
    })
}

fn opname(op: &DataOperator) -> String {
    let s = format!("{:?}", op);
    s.split(|c: char| !c.is_alphanumeric()).next().unwrap_or("").to_string()
}

fn vtype(v: &DataValue) -> &'static str {
    match v {
        DataValue::Null => "Null",
        DataValue::Bool(_) => "Bool",
        DataValue::Int(_) => "Int",
        DataValue::Float(_) => "Float",
        DataValue::String(_) => "String",
        DataValue::List(_) => "List",
        DataValue::Datetime(_) => "Datetime",
    }
}

fn is_int_float_cross(v: &DataValue, op: &DataOperator) -> bool {
    use DataOperator as O;
    matches!(
        (v, op),
        (DataValue::Float(_), O::GreaterThan(_) | O::GreaterThanOrEqual(_) | O::LessThan(_) | O::LessThanOrEqual(_))
            | (DataValue::Int(_), O::GreaterThanFloat(_) | O::GreaterThanOrEqualFloat(_) | O::LessThanFloat(_) | O::LessThanOrEqualFloat(_))
    )
}

/// does the disagreement on `op` come down to an Int value under a float comparison (or vice versa) answering false?
fn explained_by_cross(v: &DataValue, op: &DataOperator) -> bool {
    match op {
        DataOperator::Not(i) => explained_by_cross(v, i),
        DataOperator::And(os) | DataOperator::Or(os) => os.iter().any(|o| explained_by_cross(v, o) && ref_test(v, o).map(|w| w != v.test(o)).unwrap_or(false)),
        _ => is_int_float_cross(v, op),
    }
}

fn semantics_table(rep: &mut Report, rng: &mut Rng, extra: usize) {
    let values = value_pool();
    let ops = operator_pool(rng, extra);
    for v in &values {
        for op in &ops {
            rep.eval();
            let got = guard(|| v.test(op));
            match got {
                Err(p) => rep.violation(
                    format!("C10/semantics/panic/{}/{}/{}", vtype(v), opname(op), p.class()),
                    json!({"value": value_json(v), "operator": format!("{:?}", op), "panic": p.msg}),
                ),
                Ok(g) => {
                    if let Some(w) = ref_test(v, op) {
                        if w {
                            rep.distinct(&format!("sem/{}/{}", vtype(v), opname(op)));
                        }
                        if g != w {
                            let sig = if explained_by_cross(v, op) {
                                "C10/semantics/explained:int-float-cross-type-comparison-answers-false".to_string()
                            } else {
                                format!("C10/semantics/{}/{}/got={}", vtype(v), opname(op), g)
                            };
                            rep.violation(sig, json!({"value": value_json(v), "operator": format!("{:?}", op), "got": g, "documented": w}));
                        }
                    }
                }
            }
        }
    }
    if rep.samples.len() < 2 {
        rep.sample(json!({"values": values.len(), "operators": ops.len(), "example": {"value": value_json(&values[3]), "operator": format!("{:?}", ops[40 % ops.len()])}}));
    }
}

fn scan_checks(h: &History, rep: &mut Report, rng: &mut Rng) {
    let store = &h.store;
    let m = &h.model;
    let ops = operator_pool(rng, 6);
    for set in m.sets.values() {
        let Some(ds) = store.dataset(AnnotationDataSetHandle::new(set.handle)) else {
            rep.violation("C10/dataset-missing", json!({"set": set.id, "history": h.replay_json()}));
            continue;
        };
        // dedup invariants on the live store
        rep.eval();
        let all: Vec<ResultItem<AnnotationData>> = ds.data().collect();
        for (i, a) in all.iter().enumerate() {
            for b in all.iter().skip(i + 1) {
                if a.id().is_none() && b.id().is_none() && a.as_ref().key() == b.as_ref().key() && a.value() == b.value() {
                    rep.violation(
                        "C10/dedup/two-idless-items-with-equal-key-and-value",
                        json!({"set": set.id, "handles": [a.handle().as_usize(), b.handle().as_usize()], "value": value_json(a.value()), "history": h.replay_json()}),
                    );
                }
            }
        }
        let keys: Vec<ResultItem<DataKey>> = ds.keys().collect();
        for (i, a) in keys.iter().enumerate() {
            for b in keys.iter().skip(i + 1) {
                if a.id() == b.id() {
                    rep.violation("C10/dedup/two-live-keys-with-one-id", json!({"set": set.id, "key": a.id(), "history": h.replay_json()}));
                }
            }
        }
        // key.data() = items carrying the key (model) and (scan of the live data)
        for k in set.keys.values() {
            rep.eval();
            let Some(key) = ds.key(DataKeyHandle::new(k.handle)) else { continue };
            let got: Vec<usize> = key.data().map(|d| d.handle().as_usize()).collect();
            let scan: Vec<usize> = all.iter().filter(|d| d.as_ref().key().as_usize() == k.handle).map(|d| d.handle().as_usize()).collect();
            let model: Vec<usize> = set.data.values().filter(|d| d.key == k.handle).map(|d| d.handle).collect();
            if got != scan || got != model {
                rep.violation(
                    format!("C10/key-data/differs-from-scan/{}", diff_kind(&json!(model), &json!(got))),
                    json!({"set": set.id, "key": k.id, "key.data()": got, "scan": scan, "model": model, "history": h.replay_json()}),
                );
            }
        }
        // find_data / test_data vs scan with the library's own test()
        let keychoices: Vec<Option<&MKey>> = std::iter::once(None).chain(set.keys.values().map(Some)).collect();
        for kc in keychoices.iter().take(4) {
            for op in ops.iter().step_by(5) {
                rep.eval();
                let scan: Vec<usize> = all
                    .iter()
                    .filter(|d| kc.map(|k| d.as_ref().key().as_usize() == k.handle).unwrap_or(true) && d.value().test(op))
                    .map(|d| d.handle().as_usize())
                    .collect();
                let route = |setany: bool| -> Result<Vec<usize>, Panic> {
                    guard(|| {
                        let op = op.clone();
                        match (setany, kc) {
                            (false, Some(k)) => ds.find_data(k.id.as_str(), op).map(|d| d.handle().as_usize()).collect(),
                            (false, None) => ds.find_data(false, op).map(|d| d.handle().as_usize()).collect(),
                            (true, Some(k)) => store.find_data(set.id.as_str(), k.id.as_str(), op).map(|d| d.handle().as_usize()).collect(),
                            (true, None) => store.find_data(set.id.as_str(), false, op).map(|d| d.handle().as_usize()).collect(),
                        }
                    })
                };
                for (name, via_store) in [("dataset.find_data", false), ("store.find_data", true)] {
                    match route(via_store) {
                        Err(p) => rep.violation(format!("C10/{}/panic/{}", name, p.class()), json!({"operator": format!("{:?}", op), "panic": p.msg, "history": h.replay_json()})),
                        Ok(got) => {
                            let mut g = got.clone();
                            g.sort();
                            if g != scan {
                                rep.violation(
                                    format!("C10/{}/differs-from-scan/{}/{}", name, if kc.is_some() { "with-key" } else { "any-key" }, diff_kind(&json!(scan), &json!(g))),
                                    json!({"set": set.id, "key": kc.map(|k| k.id.clone()), "operator": format!("{:?}", op), "got": got, "scan": scan, "history": h.replay_json()}),
                                );
                            }
                            if !scan.is_empty() {
                                rep.distinct(&format!("scan/{}/{}/{}", name, kc.is_some(), opname(op)));
                            }
                        }
                    }
                }
                let td = guard(|| match kc {
                    Some(k) => ds.test_data(k.id.as_str(), op.clone()),
                    None => ds.test_data(false, op.clone()),
                });
                if let Ok(t) = td {
                    if t != !scan.is_empty() {
                        rep.violation("C10/test_data/differs-from-scan", json!({"set": set.id, "operator": format!("{:?}", op), "test_data": t, "scan": scan, "history": h.replay_json()}));
                    }
                }
            }
        }
        // a key the set does not have (the name of a key of another set, and a name no set has): nothing can be found
        let mut absent: Vec<String> = m.sets.values().flat_map(|s| s.keys.values().map(|k| k.id.clone())).filter(|k| !set.keys.values().any(|x| &x.id == k)).take(2).collect();
        absent.push("no-such-key-anywhere".to_string());
        for k in &absent {
            for op in ops.iter().step_by(9) {
                rep.eval();
                let routes: Vec<(&str, Result<usize, Panic>)> = vec![
                    ("dataset.find_data", guard(|| ds.find_data(k.as_str(), op.clone()).count())),
                    ("store.find_data", guard(|| store.find_data(set.id.as_str(), k.as_str(), op.clone()).count())),
                    ("dataset.test_data", guard(|| ds.test_data(k.as_str(), op.clone()) as usize)),
                ];
                for (name, r) in routes {
                    match r {
                        Err(p) => rep.violation(format!("C10/{}/absent-key/panic/{}", name, p.class()), json!({"set": set.id, "key": k, "operator": format!("{:?}", op), "panic": p.msg, "history": h.replay_json()})),
                        Ok(0) => rep.distinct(&format!("absent-key/{}/{}", name, opname(op))),
                        Ok(n) => rep.violation(format!("C10/{}/absent-key-finds-data", name), json!({"set": set.id, "key": k, "operator": format!("{:?}", op), "found": n, "history": h.replay_json()})),
                    }
                }
            }
        }
        // the same searches as filters over the data of the WHOLE store (several datasets: handles of keys and data repeat per set)
        for k in set.keys.values().take(3) {
            let Some(key) = ds.key(DataKeyHandle::new(k.handle)) else { continue };
            for op in ops.iter().step_by(7) {
                rep.eval();
                let pair = |d: &ResultItem<AnnotationData>| (d.set().handle().as_usize(), d.handle().as_usize());
                let scan: Result<Vec<(usize, usize)>, Panic> = guard(|| {
                    let mut v: Vec<(usize, usize)> = store.data().filter(|d| d.set().handle() == ds.handle() && d.key().handle() == key.handle() && d.value().test(op)).map(|d| pair(&d)).collect();
                    v.sort();
                    v
                });
                let Ok(scan) = scan else { continue };
                let routes: Vec<(&str, Result<Vec<(usize, usize)>, Panic>)> = vec![
                    ("store.data().filter_key_handle_value", guard(|| store.data().filter_key_handle_value(ds.handle(), key.handle(), op.clone()).map(|d| pair(&d)).collect())),
                    ("store.data().filter_key().filter_value", guard(|| store.data().filter_key(&key).filter_value(op.clone()).map(|d| pair(&d)).collect())),
                    ("store.data().filter_set().filter_key_handle().filter_value", guard(|| store.data().filter_set(&ds).filter_key_handle(ds.handle(), key.handle()).filter_value(op.clone()).map(|d| pair(&d)).collect())),
                ];
                for (name, got) in routes {
                    match got {
                        Err(p) => rep.violation(format!("C10/{}/panic/{}", name, p.class()), json!({"operator": format!("{:?}", op), "panic": p.msg, "history": h.replay_json()})),
                        Ok(mut g) => {
                            g.sort();
                            if g != scan {
                                rep.violation(
                                    format!("C10/{}/differs-from-scan/{}", name, diff_kind(&json!(scan), &json!(g))),
                                    json!({"set": set.id, "key": k.id, "operator": format!("{:?}", op), "got_(set,data)": g, "scan_(set,data)": scan, "history": h.replay_json()}),
                                );
                            }
                            if !scan.is_empty() {
                                rep.distinct(&format!("scan/{}/{}", name, opname(op)));
                            }
                        }
                    }
                }
                // and as a filter on annotations: those that carry a matching data item
                let ascan: Result<Vec<usize>, Panic> = guard(|| store.annotations().filter(|a| a.data().any(|d| d.set().handle() == ds.handle() && d.key().handle() == key.handle() && d.value().test(op))).map(|a| a.handle().as_usize()).collect());
                let agot: Result<Vec<usize>, Panic> = guard(|| store.annotations().filter_key_value(&key, op.clone()).map(|a| a.handle().as_usize()).collect());
                if let (Ok(mut x), Ok(mut y)) = (ascan, agot) {
                    x.sort();
                    y.sort();
                    if x != y {
                        rep.violation(
                            format!("C10/store.annotations().filter_key_value/differs-from-scan/{}", diff_kind(&json!(x), &json!(y))),
                            json!({"set": set.id, "key": k.id, "operator": format!("{:?}", op), "got": y, "scan": x, "history": h.replay_json()}),
                        );
                    }
                }
            }
        }
        // data_by_value finds an item with that key and value iff one exists
        for d in set.data.values().take(6) {
            rep.eval();
            let got = guard(|| ds.as_ref().data_by_value(DataKeyHandle::new(d.key), &d.value).map(|x| x.handle().map(|h| h.as_usize())));
            match got {
                Ok(Some(Some(h))) => {
                    let ok = set.data.get(&h).map(|x| x.key == d.key && x.value == d.value).unwrap_or(false);
                    if !ok {
                        rep.violation("C10/data_by_value/returns-other-item", json!({"set": set.id, "wanted": value_json(&d.value), "got_handle": h}));
                    }
                }
                Ok(_) => rep.violation("C10/data_by_value/misses-existing-item", json!({"set": set.id, "key": d.key, "value": value_json(&d.value), "history": h.replay_json()})),
                Err(p) => rep.violation(format!("C10/data_by_value/panic/{}", p.class()), json!({"panic": p.msg, "history": h.replay_json()})),
            }
        }
    }
    // every annotation refers to the data handles the model predicts (same (key,value) => same item)
    for a in m.anns.values() {
        rep.eval();
        if let Some(ra) = store.annotation(AnnotationHandle::new(a.handle)) {
            let got: Vec<(usize, usize)> = ra.as_ref().raw_data().iter().map(|(s, d)| (s.as_usize(), d.as_usize())).collect();
            if got != a.data {
                rep.violation(
                    "C10/dedup/annotation-refers-to-other-data-item",
                    json!({"annotation": a.handle, "library": got, "model": a.data, "history": h.replay_json()}),
                );
            }
        }
    }
}

pub fn run(p: &Params, rep: &mut Report) {
    rep.rule = "seeded histories of dataset creation, insert_data, annotate (data with and without ids, by id/handle, repeated (key,value) pairs), remove_data, remove_key; after every operation: returned data handles vs the model's exactly-once prediction, dedup invariants on the live sets, key.data()/find_data/test_data/data_by_value vs a scan of all data (4 any-combinations x ~15 operators), and the filter adaptors over the data and the annotations of the whole store (filter_key_handle_value, filter_key+filter_value, filter_set+..., annotations().filter_key_value) vs a scan; at the end of half of the histories a key is declared without data (low-level insert) and removed again, and the comparisons are repeated; plus the full cross product of a 33-value pool x ~105 operators (numeric strings that are not integer literals, integers beyond 2^53) (every variant, Not, And/Or nested) against a reference written from the doc comments. distinct_nontrivial = distinct (value type, operator) cells where the reference says the test passes + distinct (route, key?, operator) searches with non-empty result".into();
    rep.assumptions = vec![
        "NaN is excluded (IEEE inequality makes 'same value' undefined)".into(),
        "Bool vs Equals(string), Int vs EqualsFloat and Float vs EqualsInt are not documented and not judged".into(),
        "numeric/string cross-type: a numeric or datetime value equals a string operand iff the string parses to the same value".into(),
        "searching with a key but without a set ignores the key (documented)".into(),
    ];
    let total: u64 = if p.thorough { 20000 } else { 6000 };
    for k in p.cases(total) {
        rep.current_case = p.case_coord(k);
        rep.cases += 1;
        let mut rng = Rng::new(p.seed, "c10", k);
        if k % 25 == 0 {
            semantics_table(rep, &mut rng, if p.thorough { 200 } else { 40 });
        }
        let mut h = History::new(100, rng.chance(1, 2));
        let mut cfg = GenCfg::default();
        cfg.protect = false;
        cfg.complex = false;
        cfg.max_anns = 12;
        cfg.max_keys = 3;
        cfg.hostile_ids = rng.chance(1, 5);
        let mut g = Gen::new(cfg);
        let nops = rng.range(6, if p.thorough { 40 } else { 24 }) as usize;
        for _ in 0..nops {
            let op = if rng.chance(1, 3) { Op::InsertData(g.gen_data_req(&mut rng, &h.model)) } else { g.gen_op(&mut rng, &h.model) };
            if let (Pred::Unspecified(_), _) | (Pred::Err(_), _) = h.model.clone().apply(&op) {
                continue;
            }
            let r = h.step(&op);
            rep.eval();
            rep.count(&format!("op/{}", op.kind()));
            rep.count_n("data/new", r.effect.new_data.len() as u64);
            rep.count_n("data/reused", r.effect.reused_data.len() as u64);
            match &r.agreement {
                Agreement::Handle { got, want } if matches!(op, Op::InsertData(_)) => {
                    rep.violation(
                        format!("C10/dedup/insert_data-returns-unexpected-item/{}", if r.effect.reused_data.is_empty() { "expected-new" } else { "expected-existing" }),
                        json!({"got": got, "want": want, "history": h.replay_json()}),
                    );
                }
                _ => {}
            }
            if !r.agreement.in_step() {
                rep.count(&format!("history-ended/{}", r.agreement.class()));
                break;
            }
            scan_checks(&h, rep, &mut rng);
        }
        // a key that is declared but never gets data (low-level insert), removed again: the vocabulary and its index are as before
        if h.ended.is_none() && rng.chance(1, 2) {
            let sets: Vec<AnnotationDataSetHandle> = h.store.datasets().filter(|s| s.id() != Some(TEXTVALIDATION_SET)).map(|s| s.handle()).collect();
            if !sets.is_empty() {
                let sh = *rng.pick(&sets);
                let added = guard(|| {
                    let ds: &mut AnnotationDataSet = h.store.get_mut(sh).map_err(|e| e.to_string())?;
                    ds.insert(DataKey::new("declared-but-unused")).map(|_| ()).map_err(|e| e.to_string())
                });
                if matches!(added, Ok(Ok(()))) {
                    rep.eval();
                    rep.count("unused-key/added-and-removed");
                    match guard(|| h.store.remove_key(sh, "declared-but-unused", rng.chance(1, 2))) {
                        Ok(Ok(())) => scan_checks(&h, rep, &mut rng),
                        Ok(Err(e)) => rep.violation("C10/unused-key/remove_key-refused", json!({"error": e.to_string(), "history": h.replay_json()})),
                        Err(pn) => rep.violation(format!("C10/unused-key/remove_key-panic/{}", pn.class()), json!({"panic": pn.msg, "history": h.replay_json()})),
                    }
                }
            }
        }
        if k % 101 == 0 {
            rep.sample(json!({"case": k, "history": h.replay_json()}));
        }
    }
}
