//! Shadow reference model of a STAM store (DESIGN.md 3.3, appendix A and B).
//! Written from the documentation only: forward references are stored, everything "reverse" is computed
//! by scanning all live annotations. The model never calls into `stam` (it only borrows the plain
//! `DataValue` enum as a value container).

use serde_json::{json, Value};
use stam::DataValue;
use std::collections::{BTreeMap, BTreeSet};

#[derive(Clone, Copy, Debug, PartialEq)]
pub enum Cur {
    B(usize),
    E(isize),
}

#[derive(Clone, Copy, Debug, PartialEq)]
pub struct Off {
    pub begin: Cur,
    pub end: Cur,
}

impl Off {
    pub fn simple(b: usize, e: usize) -> Off {
        Off {
            begin: Cur::B(b),
            end: Cur::B(e),
        }
    }
    pub fn mode(&self) -> &'static str {
        match (self.begin, self.end) {
            (Cur::B(_), Cur::B(_)) => "BeginBegin",
            (Cur::B(_), Cur::E(_)) => "BeginEnd",
            (Cur::E(_), Cur::B(_)) => "EndBegin",
            (Cur::E(_), Cur::E(_)) => "EndEnd",
        }
    }
    pub fn to_json(&self) -> Value {
        let c = |c: Cur| match c {
            Cur::B(x) => json!({"B": x}),
            Cur::E(x) => json!({"E": x}),
        };
        json!([c(self.begin), c(self.end)])
    }
}

/// C04 definition: BeginAligned(x) -> x, EndAligned(x<=0) -> len+x, anything else invalid;
/// accepted iff 0 <= b <= e <= len
/// canonical temporary id `!<L><n>` of the given kind (the format reserves these; public ids of this shape are never generated)
pub fn temp_handle(letter: char, id: &str) -> Option<usize> {
    let rest = id.strip_prefix('!')?.strip_prefix(letter)?;
    if rest.is_empty() || !rest.bytes().all(|b| b.is_ascii_digit()) || (rest.len() > 1 && rest.starts_with('0')) {
        return None;
    }
    rest.parse().ok()
}

pub fn resolve_off(len: usize, off: &Off) -> Result<(usize, usize), &'static str> {
    let cur = |c: Cur| -> Result<usize, &'static str> {
        match c {
            Cur::B(x) => {
                if x <= len {
                    Ok(x)
                } else {
                    Err("cursor-beyond-end")
                }
            }
            Cur::E(x) => {
                if x > 0 {
                    Err("positive-endaligned")
                } else if x == isize::MIN || (-x) as usize > len {
                    Err("cursor-before-begin")
                } else {
                    Ok(len - (-x) as usize)
                }
            }
        }
    };
    let b = cur(off.begin)?;
    let e = cur(off.end)?;
    if b > e {
        return Err("inverted");
    }
    Ok((b, e))
}

#[derive(Clone, Debug, PartialEq)]
pub enum Ref {
    Id(String),
    Handle(usize),
    None,
}

impl Ref {
    pub fn to_json(&self) -> Value {
        match self {
            Ref::Id(s) => json!({"id": s}),
            Ref::Handle(h) => json!({"h": h}),
            Ref::None => Value::Null,
        }
    }
}

#[derive(Clone, Debug, PartialEq)]
pub enum SelReq {
    Text(Ref, Off),
    Ann(Ref, Option<Off>),
    Res(Ref),
    Set(Ref),
    Key(Ref, Ref),
    Data(Ref, Ref),
    Multi(Vec<SelReq>),
    Composite(Vec<SelReq>),
    Directional(Vec<SelReq>),
}

impl SelReq {
    pub fn kind(&self) -> &'static str {
        match self {
            SelReq::Text(..) => "TextSelector",
            SelReq::Ann(_, None) => "AnnotationSelector",
            SelReq::Ann(_, Some(_)) => "AnnotationSelector+offset",
            SelReq::Res(_) => "ResourceSelector",
            SelReq::Set(_) => "DataSetSelector",
            SelReq::Key(..) => "DataKeySelector",
            SelReq::Data(..) => "AnnotationDataSelector",
            SelReq::Multi(_) => "MultiSelector",
            SelReq::Composite(_) => "CompositeSelector",
            SelReq::Directional(_) => "DirectionalSelector",
        }
    }
    pub fn is_complex(&self) -> bool {
        matches!(self, SelReq::Multi(_) | SelReq::Composite(_) | SelReq::Directional(_))
    }
    pub fn to_json(&self) -> Value {
        match self {
            SelReq::Text(r, o) => json!({"Text": [r.to_json(), o.to_json()]}),
            SelReq::Ann(a, o) => json!({"Ann": [a.to_json(), o.map(|o| o.to_json())]}),
            SelReq::Res(r) => json!({"Res": r.to_json()}),
            SelReq::Set(s) => json!({"Set": s.to_json()}),
            SelReq::Key(s, k) => json!({"Key": [s.to_json(), k.to_json()]}),
            SelReq::Data(s, d) => json!({"Data": [s.to_json(), d.to_json()]}),
            SelReq::Multi(v) => json!({"Multi": v.iter().map(|x| x.to_json()).collect::<Vec<_>>()}),
            SelReq::Composite(v) => json!({"Composite": v.iter().map(|x| x.to_json()).collect::<Vec<_>>()}),
            SelReq::Directional(v) => json!({"Directional": v.iter().map(|x| x.to_json()).collect::<Vec<_>>()}),
        }
    }
}

#[derive(Clone, Debug, PartialEq)]
pub struct DataReq {
    pub set: Ref,
    pub id: Ref,
    pub key: Ref,
    pub value: DataValue,
}

impl DataReq {
    pub fn to_json(&self) -> Value {
        json!({"set": self.set.to_json(), "id": self.id.to_json(), "key": self.key.to_json(), "value": value_json(&self.value)})
    }
}

#[derive(Clone, Debug, PartialEq)]
pub struct AnnReq {
    pub id: Option<String>,
    pub target: Option<SelReq>,
    pub data: Vec<DataReq>,
}

impl AnnReq {
    pub fn to_json(&self) -> Value {
        json!({"id": self.id, "target": self.target.as_ref().map(|t| t.to_json()), "data": self.data.iter().map(|d| d.to_json()).collect::<Vec<_>>()})
    }
}

#[derive(Clone, Copy, Debug, PartialEq)]
pub enum PMode {
    Checksum,
    Text,
    Both,
    Auto,
}

#[derive(Clone, Debug, PartialEq)]
pub enum Op {
    AddResource { id: String, text: String },
    /// items: (key id, value, optional data id)
    AddDataset { id: String, items: Vec<(String, DataValue, Option<String>)> },
    Annotate(AnnReq),
    InsertData(DataReq),
    RemoveAnnotation(Ref),
    RemoveData { set: Ref, data: Ref, strict: bool },
    RemoveKey { set: Ref, key: Ref, strict: bool },
    RemoveResource(Ref),
    RemoveDataset(Ref),
    ProtectText(PMode),
    /// `DELETE <TYPE> ?x { SELECT <TYPE> ?x WHERE ID "<id>"; }` through query_mut; kind is 'A', 'R' or 'S'
    QueryDelete(char, String),
}

impl Op {
    pub fn kind(&self) -> &'static str {
        match self {
            Op::AddResource { .. } => "add_resource",
            Op::AddDataset { .. } => "add_dataset",
            Op::Annotate(_) => "annotate",
            Op::InsertData(_) => "insert_data",
            Op::RemoveAnnotation(_) => "remove_annotation",
            Op::RemoveData { strict: true, .. } => "remove_data/strict",
            Op::RemoveData { strict: false, .. } => "remove_data/nonstrict",
            Op::RemoveKey { strict: true, .. } => "remove_key/strict",
            Op::RemoveKey { strict: false, .. } => "remove_key/nonstrict",
            Op::RemoveResource(_) => "remove_resource",
            Op::RemoveDataset(_) => "remove_dataset",
            Op::ProtectText(_) => "protect_text",
            Op::QueryDelete('A', _) => "query_delete/annotation",
            Op::QueryDelete('R', _) => "query_delete/resource",
            Op::QueryDelete(_, _) => "query_delete/dataset",
        }
    }
    pub fn to_json(&self) -> Value {
        match self {
            Op::AddResource { id, text } => json!({"add_resource": {"id": id, "text": text}}),
            Op::AddDataset { id, items } => json!({"add_dataset": {"id": id, "items": items.iter().map(|(k, v, d)| json!([k, value_json(v), d])).collect::<Vec<_>>()}}),
            Op::Annotate(a) => json!({"annotate": a.to_json()}),
            Op::InsertData(d) => json!({"insert_data": d.to_json()}),
            Op::RemoveAnnotation(r) => json!({"remove_annotation": r.to_json()}),
            Op::RemoveData { set, data, strict } => json!({"remove_data": [set.to_json(), data.to_json(), strict]}),
            Op::RemoveKey { set, key, strict } => json!({"remove_key": [set.to_json(), key.to_json(), strict]}),
            Op::RemoveResource(r) => json!({"remove_resource": r.to_json()}),
            Op::RemoveDataset(r) => json!({"remove_dataset": r.to_json()}),
            Op::ProtectText(m) => json!({"protect_text": format!("{:?}", m)}),
            Op::QueryDelete(k, id) => json!({"query_delete": [k.to_string(), id]}),
        }
    }
}

pub fn value_json(v: &DataValue) -> Value {
    match v {
        DataValue::Null => json!({"t": "Null"}),
        DataValue::String(s) => json!({"t": "String", "v": s}),
        DataValue::Bool(b) => json!({"t": "Bool", "v": b}),
        DataValue::Int(i) => json!({"t": "Int", "v": i}),
        DataValue::Float(f) => json!({"t": "Float", "v": format!("{:?}", f)}),
        DataValue::List(l) => json!({"t": "List", "v": l.iter().map(value_json).collect::<Vec<_>>()}),
        DataValue::Datetime(d) => json!({"t": "Datetime", "v": d.to_rfc3339()}),
    }
}

#[derive(Clone, Debug, PartialEq)]
pub enum MSel {
    Text { res: usize, b: usize, e: usize, mode: &'static str },
    Ann { ann: usize, off: Option<(usize, usize, usize, &'static str)> },
    Res(usize),
    Set(usize),
    Key(usize, usize),
    Data(usize, usize),
    Multi(Vec<MSel>),
    Composite(Vec<MSel>),
    Directional(Vec<MSel>),
}

impl MSel {
    pub fn subs(&self) -> Option<&Vec<MSel>> {
        match self {
            MSel::Multi(v) | MSel::Composite(v) | MSel::Directional(v) => Some(v),
            _ => None,
        }
    }
    /// the selector itself if simple, else its direct subselectors
    pub fn leaves(&self) -> Vec<&MSel> {
        match self.subs() {
            Some(v) => v.iter().collect(),
            None => vec![self],
        }
    }
    pub fn is_directional(&self) -> bool {
        matches!(self, MSel::Directional(_))
    }
    /// text selections as (res, begin, end), in stored order
    pub fn textselections(&self) -> Vec<(usize, usize, usize)> {
        self.leaves()
            .into_iter()
            .filter_map(|s| match s {
                MSel::Text { res, b, e, .. } => Some((*res, *b, *e)),
                MSel::Ann { off: Some((res, b, e, _)), .. } => Some((*res, *b, *e)),
                _ => None,
            })
            .collect()
    }
    pub fn target_annotations(&self) -> Vec<usize> {
        self.leaves()
            .into_iter()
            .filter_map(|s| match s {
                MSel::Ann { ann, .. } => Some(*ann),
                _ => None,
            })
            .collect()
    }
    pub fn kind(&self) -> &'static str {
        match self {
            MSel::Text { .. } => "TextSelector",
            MSel::Ann { .. } => "AnnotationSelector",
            MSel::Res(_) => "ResourceSelector",
            MSel::Set(_) => "DataSetSelector",
            MSel::Key(..) => "DataKeySelector",
            MSel::Data(..) => "AnnotationDataSelector",
            MSel::Multi(_) => "MultiSelector",
            MSel::Composite(_) => "CompositeSelector",
            MSel::Directional(_) => "DirectionalSelector",
        }
    }
}

#[derive(Clone, Debug)]
pub struct MRes {
    pub handle: usize,
    pub id: String,
    pub text: Vec<char>,
    /// known text selections in order of first use (the library never forgets them)
    pub known: Vec<(usize, usize)>,
}

#[derive(Clone, Debug)]
pub struct MKey {
    pub handle: usize,
    pub id: String,
}

#[derive(Clone, Debug)]
pub struct MData {
    pub handle: usize,
    pub id: Option<String>,
    pub key: usize,
    pub value: DataValue,
}

#[derive(Clone, Debug)]
pub struct MSet {
    pub handle: usize,
    pub id: String,
    pub keys: BTreeMap<usize, MKey>,
    pub data: BTreeMap<usize, MData>,
    pub next_key: usize,
    pub next_data: usize,
}

#[derive(Clone, Debug)]
pub struct MAnn {
    pub handle: usize,
    pub id: Option<String>,
    pub target: MSel,
    pub data: Vec<(usize, usize)>,
}

#[derive(Clone, Debug, Default)]
pub struct Model {
    pub resources: BTreeMap<usize, MRes>,
    pub sets: BTreeMap<usize, MSet>,
    pub anns: BTreeMap<usize, MAnn>,
    pub next_res: usize,
    pub next_set: usize,
    pub next_ann: usize,
    /// ids of removed items (kind, id) — used to probe that they stop resolving
    pub dead_ids: BTreeSet<(char, String)>,
    /// the store was configured with strip_temp_ids(false): `!A3` is an ordinary string, not a temporary id
    pub no_temp_ids: bool,
}

/// what the model predicts for an operation
#[derive(Clone, Debug, PartialEq)]
pub enum Pred {
    /// succeeds; for insertions the handle the new (or existing) item must have
    Ok(Option<usize>),
    /// must be refused with an error and leave the store unchanged
    Err(&'static str),
    /// the documentation does not say; only "Err => unchanged" is demanded. The model cannot follow an Ok.
    Unspecified(&'static str),
}

#[derive(Clone, Debug, Default)]
pub struct Effect {
    pub removed_annotations: Vec<usize>,
    pub new_datasets: Vec<usize>,
    pub new_keys: Vec<(usize, usize)>,
    pub new_data: Vec<(usize, usize)>,
    pub reused_data: Vec<(usize, usize)>,
    pub new_textselections: usize,
}

/// independent SHA-1 of the joined text (the documented content of the `checksum` validation key)
pub fn sha1_hex(text: &str) -> String {
    use sha1::{Digest, Sha1};
    let mut hasher = Sha1::new();
    hasher.update(text.as_bytes());
    base16ct::lower::encode_string(&hasher.finalize())
}

pub const TEXTVALIDATION_SET: &str = "https://w3id.org/stam/extensions/stam-textvalidation/";

impl Model {
    pub fn new() -> Self {
        Self::default()
    }

    // ---------------------------------------------------------------- resolution of references

    pub fn res(&self, r: &Ref) -> Option<usize> {
        match r {
            Ref::Id(id) => temp_handle('R', id).filter(|_| !self.no_temp_ids).and_then(|h| self.resources.get(&h)).or_else(|| self.resources.values().find(|x| &x.id == id)).map(|x| x.handle),
            Ref::Handle(h) => self.resources.get(h).map(|x| x.handle),
            Ref::None => None,
        }
    }
    pub fn set(&self, r: &Ref) -> Option<usize> {
        match r {
            Ref::Id(id) => temp_handle('S', id).filter(|_| !self.no_temp_ids).and_then(|h| self.sets.get(&h)).or_else(|| self.sets.values().find(|x| &x.id == id)).map(|x| x.handle),
            Ref::Handle(h) => self.sets.get(h).map(|x| x.handle),
            Ref::None => None,
        }
    }
    pub fn ann(&self, r: &Ref) -> Option<usize> {
        match r {
            Ref::Id(id) => temp_handle('A', id).filter(|_| !self.no_temp_ids)
                .and_then(|h| self.anns.get(&h))
                .or_else(|| self.anns.values().find(|x| x.id.as_deref() == Some(id.as_str())))
                .map(|x| x.handle),
            Ref::Handle(h) => self.anns.get(h).map(|x| x.handle),
            Ref::None => None,
        }
    }
    pub fn key(&self, set: usize, r: &Ref) -> Option<usize> {
        let s = self.sets.get(&set)?;
        match r {
            Ref::Id(id) => temp_handle('K', id).filter(|_| !self.no_temp_ids).and_then(|h| s.keys.get(&h)).or_else(|| s.keys.values().find(|x| &x.id == id)).map(|x| x.handle),
            Ref::Handle(h) => s.keys.get(h).map(|x| x.handle),
            Ref::None => None,
        }
    }
    pub fn data(&self, set: usize, r: &Ref) -> Option<usize> {
        let s = self.sets.get(&set)?;
        match r {
            Ref::Id(id) => temp_handle('D', id).filter(|_| !self.no_temp_ids)
                .and_then(|h| s.data.get(&h))
                .or_else(|| s.data.values().find(|x| x.id.as_deref() == Some(id.as_str())))
                .map(|x| x.handle),
            Ref::Handle(h) => s.data.get(h).map(|x| x.handle),
            Ref::None => None,
        }
    }

    /// the single text selection an annotation stands for when used as the parent of a relative offset
    pub fn parent_range(&self, ann: usize) -> Option<(usize, usize, usize)> {
        match &self.anns.get(&ann)?.target {
            MSel::Text { res, b, e, .. } => Some((*res, *b, *e)),
            MSel::Ann { off: Some((res, b, e, _)), .. } => Some((*res, *b, *e)),
            _ => None,
        }
    }

    fn resolve_sel(&self, req: &SelReq, nested: bool) -> Result<MSel, Pred> {
        match req {
            SelReq::Text(r, off) => {
                let res = self.res(r).ok_or(Pred::Err("unknown-resource"))?;
                let len = self.resources[&res].text.len();
                let (b, e) = resolve_off(len, off).map_err(|w| Pred::Err(w))?;
                Ok(MSel::Text { res, b, e, mode: off.mode() })
            }
            SelReq::Ann(a, None) => {
                let ann = self.ann(a).ok_or(Pred::Err("unknown-annotation"))?;
                Ok(MSel::Ann { ann, off: None })
            }
            SelReq::Ann(a, Some(off)) => {
                let ann = self.ann(a).ok_or(Pred::Err("unknown-annotation"))?;
                match self.parent_range(ann) {
                    Some((res, pb, pe)) => {
                        let (b, e) = resolve_off(pe - pb, off).map_err(|w| Pred::Err(w))?;
                        Ok(MSel::Ann { ann, off: Some((res, pb + b, pb + e, off.mode())) })
                    }
                    None => Err(Pred::Unspecified("relative-offset-into-annotation-without-single-textselection")),
                }
            }
            SelReq::Res(r) => Ok(MSel::Res(self.res(r).ok_or(Pred::Err("unknown-resource"))?)),
            SelReq::Set(s) => Ok(MSel::Set(self.set(s).ok_or(Pred::Err("unknown-dataset"))?)),
            SelReq::Key(s, k) => {
                let set = self.set(s).ok_or(Pred::Err("unknown-dataset"))?;
                let key = self.key(set, k).ok_or(Pred::Err("unknown-key"))?;
                Ok(MSel::Key(set, key))
            }
            SelReq::Data(s, d) => {
                let set = self.set(s).ok_or(Pred::Err("unknown-dataset"))?;
                let data = self.data(set, d).ok_or(Pred::Err("unknown-data"))?;
                Ok(MSel::Data(set, data))
            }
            SelReq::Multi(v) | SelReq::Composite(v) | SelReq::Directional(v) => {
                if nested {
                    return Err(Pred::Err("nested-complex"));
                }
                if v.is_empty() {
                    return Err(Pred::Unspecified("empty-complex-selector"));
                }
                // the library resolves sub-selectors left to right and stops at the first failure
                let mut subs = Vec::new();
                for s in v {
                    if s.is_complex() {
                        return Err(Pred::Err("nested-complex"));
                    }
                    subs.push(self.resolve_sel(s, true)?);
                }
                Ok(match req {
                    SelReq::Multi(_) => MSel::Multi(subs),
                    SelReq::Composite(_) => MSel::Composite(subs),
                    _ => MSel::Directional(subs),
                })
            }
        }
    }

    /// resolve a data request against (a scratch copy of) the model, creating dataset/key/data as documented
    fn resolve_data(&mut self, d: &DataReq, eff: &mut Effect) -> Result<(usize, usize), Pred> {
        let set = match self.set(&d.set) {
            Some(s) => s,
            None => match &d.set {
                Ref::Id(id) => {
                    // "this data referenced a dataset that does not exist yet, create it"
                    let h = self.next_set;
                    self.next_set += 1;
                    self.sets.insert(
                        h,
                        MSet { handle: h, id: id.clone(), keys: BTreeMap::new(), data: BTreeMap::new(), next_key: 0, next_data: 0 },
                    );
                    eff.new_datasets.push(h);
                    h
                }
                _ => return Err(Pred::Unspecified("data-without-named-dataset")),
            },
        };
        // an id that resolves wins, key and value are ignored
        if let Some(existing) = self.data(set, &d.id) {
            eff.reused_data.push((set, existing));
            return Ok((set, existing));
        }
        if let Ref::Handle(_) = d.id {
            return Err(Pred::Unspecified("data-by-dead-handle"));
        }
        let key = match self.key(set, &d.key) {
            Some(k) => (k, false),
            None => match &d.key {
                Ref::Id(id) => {
                    let s = self.sets.get_mut(&set).unwrap();
                    let h = s.next_key;
                    s.next_key += 1;
                    s.keys.insert(h, MKey { handle: h, id: id.clone() });
                    eff.new_keys.push((set, h));
                    (h, true)
                }
                Ref::Handle(_) => return Err(Pred::Err("unknown-key-handle")),
                Ref::None => return Err(Pred::Err("data-without-key")),
            },
        };
        let s = self.sets.get_mut(&set).unwrap();
        if d.id == Ref::None && !key.1 {
            // deduplication of id-less data by (key, value)
            if let Some(existing) = s.data.values().find(|x| x.key == key.0 && x.value == d.value) {
                let h = existing.handle;
                eff.reused_data.push((set, h));
                return Ok((set, h));
            }
        }
        let h = s.next_data;
        s.next_data += 1;
        let id = match &d.id {
            Ref::Id(id) => Some(id.clone()),
            _ => None,
        };
        s.data.insert(h, MData { handle: h, id, key: key.0, value: d.value.clone() });
        eff.new_data.push((set, h));
        Ok((set, h))
    }

    fn register_known(&mut self, sel: &MSel, eff: &mut Effect) {
        for (res, b, e) in sel.textselections() {
            let r = self.resources.get_mut(&res).unwrap();
            if !r.known.contains(&(b, e)) {
                r.known.push((b, e));
                eff.new_textselections += 1;
            }
        }
    }

    // ---------------------------------------------------------------- dependents / cascades

    /// least fixed point: annotations whose target names a removed annotation
    fn close_over_dependents(&self, seed: BTreeSet<usize>) -> BTreeSet<usize> {
        let mut removed = seed;
        loop {
            let mut grew = false;
            for a in self.anns.values() {
                if removed.contains(&a.handle) {
                    continue;
                }
                if a.target.target_annotations().iter().any(|t| removed.contains(t)) {
                    removed.insert(a.handle);
                    grew = true;
                }
            }
            if !grew {
                return removed;
            }
        }
    }

    fn drop_annotations(&mut self, removed: &BTreeSet<usize>) {
        for h in removed {
            if let Some(a) = self.anns.remove(h) {
                if let Some(id) = a.id {
                    self.dead_ids.insert(('A', id));
                }
            }
        }
    }

    fn annotations_targeting(&self, pred: impl Fn(&MSel) -> bool) -> BTreeSet<usize> {
        self.anns
            .values()
            .filter(|a| a.target.leaves().into_iter().any(|s| pred(s)))
            .map(|a| a.handle)
            .collect()
    }

    /// removal of one data item; returns the set of removed annotations
    fn remove_data_item(&mut self, set: usize, data: usize, strict: bool) -> BTreeSet<usize> {
        let mut seed: BTreeSet<usize> = self.annotations_targeting(|s| *s == MSel::Data(set, data));
        let users: Vec<usize> = self
            .anns
            .values()
            .filter(|a| a.data.contains(&(set, data)))
            .map(|a| a.handle)
            .collect();
        for u in users {
            if strict {
                seed.insert(u);
            } else {
                let a = self.anns.get_mut(&u).unwrap();
                a.data.retain(|p| *p != (set, data));
                if a.data.is_empty() {
                    seed.insert(u);
                }
            }
        }
        let removed = self.close_over_dependents(seed);
        self.drop_annotations(&removed);
        if let Some(s) = self.sets.get_mut(&set) {
            if let Some(d) = s.data.remove(&data) {
                if let Some(id) = d.id {
                    self.dead_ids.insert(('D', format!("{}\u{1}{}", s.id, id)));
                }
            }
        }
        removed
    }

    // ---------------------------------------------------------------- applying operations

    /// Predict the outcome of `op` and, if it is predicted to succeed, apply it to `self`.
    /// Callers work on a clone and commit it only when the real store agreed.
    pub fn apply(&mut self, op: &Op) -> (Pred, Effect) {
        let mut eff = Effect::default();
        let pred = match op {
            Op::AddResource { id, text } => {
                if let Some(existing) = self.res(&Ref::Id(id.clone())) {
                    let same = self.resources[&existing].text.iter().collect::<String>() == *text;
                    if same {
                        Pred::Ok(Some(existing))
                    } else {
                        Pred::Err("duplicate-resource-id")
                    }
                } else if id.is_empty() {
                    Pred::Unspecified("empty-resource-id")
                } else {
                    let h = self.next_res;
                    self.next_res += 1;
                    self.resources.insert(h, MRes { handle: h, id: id.clone(), text: text.chars().collect(), known: Vec::new() });
                    Pred::Ok(Some(h))
                }
            }
            Op::AddDataset { id, items } => {
                if self.set(&Ref::Id(id.clone())).is_some() {
                    // identical re-insertion returns the existing handle, anything else is refused; the
                    // generator only re-inserts different content
                    return (Pred::Err("duplicate-dataset-id"), eff);
                }
                let h = self.next_set;
                let mut scratch = MSet { handle: h, id: id.clone(), keys: BTreeMap::new(), data: BTreeMap::new(), next_key: 0, next_data: 0 };
                let mut failure: Option<Pred> = None;
                for (k, v, did) in items {
                    if let Some(did) = did {
                        if let Some(existing) = scratch.data.values().find(|x| x.id.as_deref() == Some(did.as_str())) {
                            // an id that resolves wins
                            let _ = existing;
                            continue;
                        }
                    }
                    let (kh, newkey) = match scratch.keys.values().find(|x| &x.id == k) {
                        Some(x) => (x.handle, false),
                        None => {
                            let kh = scratch.next_key;
                            scratch.next_key += 1;
                            scratch.keys.insert(kh, MKey { handle: kh, id: k.clone() });
                            (kh, true)
                        }
                    };
                    if did.is_none() && !newkey && scratch.data.values().any(|x| x.key == kh && x.value == *v) {
                        continue;
                    }
                    if k.is_empty() {
                        failure = Some(Pred::Unspecified("empty-key-id"));
                        break;
                    }
                    let dh = scratch.next_data;
                    scratch.next_data += 1;
                    scratch.data.insert(dh, MData { handle: dh, id: did.clone(), key: kh, value: v.clone() });
                }
                if let Some(f) = failure {
                    f
                } else {
                    self.next_set += 1;
                    self.sets.insert(h, scratch);
                    Pred::Ok(Some(h))
                }
            }
            Op::Annotate(req) => {
                let Some(target) = &req.target else { return (Pred::Err("no-target"), eff) };
                let sel = match self.resolve_sel(target, false) {
                    Ok(s) => s,
                    Err(p) => return (p, eff),
                };
                let backup = self.clone();
                let mut data = Vec::new();
                for d in &req.data {
                    match self.resolve_data(d, &mut eff) {
                        Ok(p) => data.push(p),
                        Err(p) => {
                            *self = backup;
                            return (p, Effect::default());
                        }
                    }
                }
                if let Some(id) = &req.id {
                    if let Some(existing) = self.ann(&Ref::Id(id.clone())) {
                        let ex = &backup.anns[&existing];
                        let identical = ex.target == sel && ex.data == data;
                        *self = backup;
                        return if identical {
                            (Pred::Ok(Some(existing)), Effect::default())
                        } else {
                            (Pred::Err("duplicate-annotation-id"), Effect::default())
                        };
                    }
                    if id.is_empty() {
                        *self = backup;
                        return (Pred::Unspecified("empty-annotation-id"), Effect::default());
                    }
                }
                self.register_known(&sel, &mut eff);
                let h = self.next_ann;
                self.next_ann += 1;
                self.anns.insert(h, MAnn { handle: h, id: req.id.clone(), target: sel, data });
                Pred::Ok(Some(h))
            }
            Op::InsertData(d) => {
                let backup = self.clone();
                match self.resolve_data(d, &mut eff) {
                    Ok((_, dh)) => Pred::Ok(Some(dh)),
                    Err(p) => {
                        *self = backup;
                        return (p, Effect::default());
                    }
                }
            }
            Op::RemoveAnnotation(r) => match self.ann(r) {
                None => Pred::Err("unknown-annotation"),
                Some(a) => {
                    let removed = self.close_over_dependents([a].into_iter().collect());
                    self.drop_annotations(&removed);
                    eff.removed_annotations = removed.into_iter().collect();
                    Pred::Ok(None)
                }
            },
            Op::RemoveData { set, data, strict } => {
                let Some(s) = self.set(set) else { return (Pred::Unspecified("remove-data-unknown-set"), eff) };
                let Some(d) = self.data(s, data) else { return (Pred::Unspecified("remove-data-unknown-data"), eff) };
                let removed = self.remove_data_item(s, d, *strict);
                eff.removed_annotations = removed.into_iter().collect();
                Pred::Ok(None)
            }
            Op::RemoveKey { set, key, strict } => {
                let Some(s) = self.set(set) else { return (Pred::Unspecified("remove-key-unknown-set"), eff) };
                let Some(k) = self.key(s, key) else { return (Pred::Unspecified("remove-key-unknown-key"), eff) };
                let items: Vec<usize> = self.sets[&s].data.values().filter(|d| d.key == k).map(|d| d.handle).collect();
                let mut all = BTreeSet::new();
                for d in items {
                    all.extend(self.remove_data_item(s, d, *strict));
                }
                let seed = self.annotations_targeting(|x| *x == MSel::Key(s, k));
                let removed = self.close_over_dependents(seed);
                self.drop_annotations(&removed);
                all.extend(removed);
                let st = self.sets.get_mut(&s).unwrap();
                if let Some(kk) = st.keys.remove(&k) {
                    self.dead_ids.insert(('K', format!("{}\u{1}{}", st.id, kk.id)));
                }
                eff.removed_annotations = all.into_iter().collect();
                Pred::Ok(None)
            }
            Op::RemoveResource(r) => match self.res(r) {
                None => Pred::Err("unknown-resource"),
                Some(res) => {
                    let seed: BTreeSet<usize> = self
                        .anns
                        .values()
                        .filter(|a| {
                            a.target.leaves().into_iter().any(|s| *s == MSel::Res(res))
                                || a.target.textselections().iter().any(|t| t.0 == res)
                        })
                        .map(|a| a.handle)
                        .collect();
                    let removed = self.close_over_dependents(seed);
                    self.drop_annotations(&removed);
                    let rr = self.resources.remove(&res).unwrap();
                    self.dead_ids.insert(('R', rr.id));
                    eff.removed_annotations = removed.into_iter().collect();
                    Pred::Ok(None)
                }
            },
            Op::RemoveDataset(r) => match self.set(r) {
                None => Pred::Err("unknown-dataset"),
                Some(s) => {
                    let seed: BTreeSet<usize> = self
                        .anns
                        .values()
                        .filter(|a| {
                            a.data.iter().any(|(ds, _)| *ds == s)
                                || a.target.leaves().into_iter().any(|x| match x {
                                    MSel::Set(t) => *t == s,
                                    MSel::Key(t, _) => *t == s,
                                    MSel::Data(t, _) => *t == s,
                                    _ => false,
                                })
                        })
                        .map(|a| a.handle)
                        .collect();
                    let removed = self.close_over_dependents(seed);
                    self.drop_annotations(&removed);
                    let ss = self.sets.remove(&s).unwrap();
                    self.dead_ids.insert(('S', ss.id));
                    eff.removed_annotations = removed.into_iter().collect();
                    Pred::Ok(None)
                }
            },
            Op::ProtectText(mode) => {
                self.protect_text(*mode, &mut eff);
                Pred::Ok(None)
            }
            Op::QueryDelete(kind, id) => {
                // exactly the direct call on the rows of the sub-query
                let direct = match kind {
                    'A' => Op::RemoveAnnotation(Ref::Id(id.clone())),
                    'R' => Op::RemoveResource(Ref::Id(id.clone())),
                    _ => Op::RemoveDataset(Ref::Id(id.clone())),
                };
                let (p, e) = self.apply(&direct);
                return match p {
                    Pred::Ok(_) => (Pred::Ok(None), e),
                    // a sub-query without rows deletes nothing and is not an error
                    Pred::Err(_) => (Pred::Ok(None), e),
                    other => (other, e),
                };
            }
        };
        (pred, eff)
    }

    pub fn ann_text(&self, a: &MAnn) -> Vec<String> {
        self.ordered_textselections(a)
            .iter()
            .map(|(r, b, e)| self.resources[r].text[*b..*e].iter().collect::<String>())
            .collect()
    }

    /// text selections in the documented order: as built for Directional, textual order otherwise
    pub fn ordered_textselections(&self, a: &MAnn) -> Vec<(usize, usize, usize)> {
        let mut v = a.target.textselections();
        if !a.target.is_directional() {
            v.sort();
        }
        v
    }

    fn validation(&self, a: &MAnn, key: &str) -> Option<String> {
        let set = self.set(&Ref::Id(TEXTVALIDATION_SET.into()))?;
        let k = self.key(set, &Ref::Id(key.into()))?;
        a.data.iter().find_map(|(s, d)| {
            if *s == set {
                let item = &self.sets[&set].data[d];
                if item.key == k {
                    if let DataValue::String(v) = &item.value {
                        return Some(v.clone());
                    }
                }
            }
            None
        })
    }

    fn protect_text(&mut self, mode: PMode, eff: &mut Effect) {
        // first pass: what to add (computed on the state before the call)
        let mut want_checksum: Vec<usize> = Vec::new();
        let mut want_text: Vec<(usize, String)> = Vec::new();
        for a in self.anns.values() {
            let tsel = a.target.textselections();
            let textlen: usize = tsel.iter().map(|(_, b, e)| e - b).sum();
            let (do_checksum, do_text) = match mode {
                PMode::Checksum => (true, false),
                PMode::Text => (false, true),
                PMode::Both => (true, true),
                PMode::Auto => {
                    if textlen < 40 {
                        (false, true)
                    } else {
                        (true, false)
                    }
                }
            };
            let text: String = self.ann_text(a).concat();
            if text.is_empty() {
                continue;
            }
            if do_checksum && self.validation(a, "checksum").is_none() {
                want_checksum.push(a.handle);
            }
            if do_text && self.validation(a, "text").is_none() {
                want_text.push((a.handle, text));
            }
        }
        let set = match self.set(&Ref::Id(TEXTVALIDATION_SET.into())) {
            Some(s) => s,
            None => {
                let h = self.next_set;
                self.next_set += 1;
                self.sets.insert(h, MSet { handle: h, id: TEXTVALIDATION_SET.into(), keys: BTreeMap::new(), data: BTreeMap::new(), next_key: 0, next_data: 0 });
                eff.new_datasets.push(h);
                h
            }
        };
        // checksums: the value is observed from the library (text_checksum of the same annotation), see driver
        for a in want_checksum {
            let text: String = self.ann_text(&self.anns[&a]).concat();
            let req = DataReq { set: Ref::Handle(set), id: Ref::None, key: Ref::Id("checksum".into()), value: DataValue::String(sha1_hex(&text)) };
            if let Ok(p) = self.resolve_data(&req, eff) {
                self.anns.get_mut(&a).unwrap().data.push(p);
            }
        }
        for (a, text) in want_text {
            let req = DataReq { set: Ref::Handle(set), id: Ref::None, key: Ref::Id("text".into()), value: DataValue::String(text) };
            if let Ok(p) = self.resolve_data(&req, eff) {
                self.anns.get_mut(&a).unwrap().data.push(p);
            }
        }
    }

    // ---------------------------------------------------------------- names and observation

    pub fn ann_name(&self, h: usize) -> String {
        match self.anns.get(&h) {
            Some(a) => match &a.id {
                Some(id) => id.clone(),
                None => format!("#{}", self.anns.range(..h).count()),
            },
            None => format!("<dead annotation {}>", h),
        }
    }
    pub fn data_name(&self, set: usize, d: usize) -> String {
        match self.sets.get(&set).and_then(|s| s.data.get(&d).map(|x| (s, x))) {
            Some((s, x)) => match &x.id {
                Some(id) => id.clone(),
                None => format!("({}={})", s.keys.get(&x.key).map(|k| k.id.as_str()).unwrap_or("<dead key>"), value_json(&x.value)),
            },
            None => format!("<dead data {}/{}>", set, d),
        }
    }
    pub fn res_name(&self, h: usize) -> String {
        self.resources.get(&h).map(|r| r.id.clone()).unwrap_or(format!("<dead resource {}>", h))
    }
    pub fn set_name(&self, h: usize) -> String {
        self.sets.get(&h).map(|r| r.id.clone()).unwrap_or(format!("<dead dataset {}>", h))
    }
    pub fn key_name(&self, s: usize, k: usize) -> String {
        self.sets
            .get(&s)
            .and_then(|x| x.keys.get(&k))
            .map(|k| k.id.clone())
            .unwrap_or(format!("<dead key {}/{}>", s, k))
    }

    pub fn sel_json(&self, sel: &MSel) -> Value {
        match sel {
            MSel::Text { res, b, e, mode } => json!({"k": "TextSelector", "res": self.res_name(*res), "b": b, "e": e, "mode": mode}),
            MSel::Ann { ann, off: None } => json!({"k": "AnnotationSelector", "a": self.ann_name(*ann)}),
            MSel::Ann { ann, off: Some((res, b, e, mode)) } => {
                json!({"k": "AnnotationSelector", "a": self.ann_name(*ann), "res": self.res_name(*res), "b": b, "e": e, "mode": mode})
            }
            MSel::Res(r) => json!({"k": "ResourceSelector", "res": self.res_name(*r)}),
            MSel::Set(s) => json!({"k": "DataSetSelector", "set": self.set_name(*s)}),
            MSel::Key(s, k) => json!({"k": "DataKeySelector", "set": self.set_name(*s), "key": self.key_name(*s, *k)}),
            MSel::Data(s, d) => json!({"k": "AnnotationDataSelector", "set": self.set_name(*s), "data": self.data_name(*s, *d)}),
            MSel::Multi(v) | MSel::Composite(v) | MSel::Directional(v) => {
                let mut subs: Vec<Value> = v.iter().map(|s| self.sel_json(s)).collect();
                if !sel.is_directional() {
                    // order of the parts of Multi/Composite selectors is not significant (documented)
                    subs.sort_by_key(|x| x.to_string());
                }
                json!({"k": sel.kind(), "sub": subs})
            }
        }
    }

    /// canonical observation (same shape as obs::observe on the real store)
    pub fn observe(&self, with_handles: bool, with_lookups: bool) -> Value {
        let mut resources = Vec::new();
        for r in self.resources.values() {
            let mut o = json!({"id": r.id, "text": r.text.iter().collect::<String>()});
            if with_handles {
                o["h"] = json!(r.handle);
            }
            resources.push(o);
        }
        let mut datasets = Vec::new();
        for s in self.sets.values() {
            let mut keys = Vec::new();
            for k in s.keys.values() {
                let mut o = json!({"id": k.id});
                if with_handles {
                    o["h"] = json!(k.handle);
                }
                keys.push(o);
            }
            let mut data = Vec::new();
            for d in s.data.values() {
                let mut o = json!({"name": self.data_name(s.handle, d.handle), "id": d.id, "key": self.key_name(s.handle, d.key), "value": value_json(&d.value)});
                if with_handles {
                    o["h"] = json!(d.handle);
                }
                data.push(o);
            }
            let mut o = json!({"id": s.id, "keys": keys, "data": data});
            if with_handles {
                o["h"] = json!(s.handle);
            }
            datasets.push(o);
        }
        let mut annotations = Vec::new();
        for a in self.anns.values() {
            let tsel: Vec<Value> = self
                .ordered_textselections(a)
                .iter()
                .map(|(r, b, e)| json!([self.res_name(*r), b, e]))
                .collect();
            let mut o = json!({
                "name": self.ann_name(a.handle),
                "id": a.id,
                "target": self.sel_json(&a.target),
                "data": a.data.iter().map(|(s, d)| json!([self.set_name(*s), self.data_name(*s, *d)])).collect::<Vec<_>>(),
                "textselections": tsel,
                "text": self.ann_text(a),
                "resources": self.sel_resources(&a.target, false, 0).into_iter().map(|r| self.res_name(r)).collect::<Vec<_>>(),
                "resources_as_metadata": self.sel_resources(&a.target, true, 0).into_iter().map(|r| self.res_name(r)).collect::<Vec<_>>(),
            });
            if with_handles {
                o["h"] = json!(a.handle);
            }
            annotations.push(o);
        }
        let mut out = json!({"resources": resources, "datasets": datasets, "annotations": annotations});
        if with_lookups {
            out["lookups"] = self.lookups();
        }
        out
    }

    /// resources an annotation refers to through text selectors (or, `meta`, through resource selectors), following annotation
    /// selectors to the annotations they point at (documented: "by its target selector", no duplicates)
    pub fn sel_resources(&self, s: &MSel, meta: bool, depth: usize) -> BTreeSet<usize> {
        let mut out = BTreeSet::new();
        if depth > 32 {
            return out;
        }
        match s {
            MSel::Text { res, .. } => {
                if !meta {
                    out.insert(*res);
                }
            }
            MSel::Res(r) => {
                if meta {
                    out.insert(*r);
                }
            }
            MSel::Ann { ann, .. } => {
                if let Some(t) = self.anns.get(ann) {
                    out.extend(self.sel_resources(&t.target, meta, depth + 1));
                }
            }
            MSel::Multi(v) | MSel::Composite(v) | MSel::Directional(v) => {
                for m in v {
                    out.extend(self.sel_resources(m, meta, depth + 1));
                }
            }
            _ => {}
        }
        out
    }

    fn names(&self, hs: impl IntoIterator<Item = usize>) -> Value {
        let mut v: Vec<usize> = hs.into_iter().collect();
        v.sort();
        Value::Array(v.into_iter().map(|h| json!(self.ann_name(h))).collect())
    }

    /// every reverse lookup of appendix B, by full scan
    pub fn lookups(&self) -> Value {
        let mut out = serde_json::Map::new();
        // resources
        let mut res = serde_json::Map::new();
        for r in self.resources.values() {
            let on_text = self.anns.values().filter(|a| a.target.textselections().iter().any(|t| t.0 == r.handle)).map(|a| a.handle);
            let meta = self.anns.values().filter(|a| a.target.leaves().into_iter().any(|s| *s == MSel::Res(r.handle))).map(|a| a.handle);
            let mut ts = serde_json::Map::new();
            for (b, e) in &r.known {
                let users: Vec<usize> = self
                    .anns
                    .values()
                    .filter(|a| a.target.textselections().contains(&(r.handle, *b, *e)))
                    .map(|a| a.handle)
                    .collect();
                ts.insert(format!("{}-{}", b, e), json!({"annotations": self.names(users.clone()), "annotations_len": users.len()}));
            }
            res.insert(r.id.clone(), json!({"annotations": self.names(on_text), "annotations_as_metadata": self.names(meta), "textselections": ts}));
        }
        out.insert("resources".into(), Value::Object(res));
        // datasets, keys, data
        let mut sets = serde_json::Map::new();
        for s in self.sets.values() {
            let meta = self.anns.values().filter(|a| a.target.leaves().into_iter().any(|x| *x == MSel::Set(s.handle))).map(|a| a.handle);
            let mut keys = serde_json::Map::new();
            for k in s.keys.values() {
                let data: Vec<Value> = s.data.values().filter(|d| d.key == k.handle).map(|d| json!(self.data_name(s.handle, d.handle))).collect();
                let users: BTreeSet<usize> = self
                    .anns
                    .values()
                    .filter(|a| a.data.iter().any(|(ds, dd)| *ds == s.handle && s.data.get(dd).map(|d| d.key == k.handle).unwrap_or(false)))
                    .map(|a| a.handle)
                    .collect();
                let meta = self.anns.values().filter(|a| a.target.leaves().into_iter().any(|x| *x == MSel::Key(s.handle, k.handle))).map(|a| a.handle);
                keys.insert(k.id.clone(), json!({"data": data, "annotations": self.names(users.clone()), "annotations_count": users.len(), "annotations_as_metadata": self.names(meta)}));
            }
            let mut data = serde_json::Map::new();
            for d in s.data.values() {
                let users: Vec<usize> = self.anns.values().filter(|a| a.data.contains(&(s.handle, d.handle))).map(|a| a.handle).collect();
                let meta = self.anns.values().filter(|a| a.target.leaves().into_iter().any(|x| *x == MSel::Data(s.handle, d.handle))).map(|a| a.handle);
                data.insert(self.data_name(s.handle, d.handle), json!({"annotations": self.names(users.clone()), "annotations_len": users.len(), "annotations_as_metadata": self.names(meta)}));
            }
            sets.insert(s.id.clone(), json!({"annotations_as_metadata": self.names(meta), "keys": keys, "data": data}));
        }
        out.insert("datasets".into(), Value::Object(sets));
        // annotations
        let mut anns = serde_json::Map::new();
        for a in self.anns.values() {
            let pointing: Vec<usize> = self.anns.values().filter(|x| x.target.target_annotations().contains(&a.handle)).map(|x| x.handle).collect();
            let targets: Vec<usize> = a.target.target_annotations();
            let mut targets_sorted: Vec<Value> = targets.iter().map(|h| json!(self.ann_name(*h))).collect();
            if !a.target.is_directional() {
                targets_sorted.sort_by_key(|x| x.to_string());
            }
            // transitive closure, first visit only
            let mut closure: Vec<usize> = Vec::new();
            let mut stack: Vec<usize> = targets.iter().rev().copied().collect();
            while let Some(t) = stack.pop() {
                if closure.contains(&t) {
                    continue;
                }
                closure.push(t);
                if let Some(ta) = self.anns.get(&t) {
                    for n in ta.target.target_annotations().iter().rev() {
                        stack.push(*n);
                    }
                }
            }
            let mut closure_names: Vec<Value> = closure.iter().map(|h| json!(self.ann_name(*h))).collect();
            closure_names.sort_by_key(|x| x.to_string());
            anns.insert(
                self.ann_name(a.handle),
                json!({
                    "annotations": self.names(pointing),
                    "annotations_in_targets": targets_sorted,
                    "annotations_in_targets_max": closure_names,
                }),
            );
        }
        out.insert("annotations".into(), Value::Object(anns));
        Value::Object(out)
    }

    /// the stored order of the parts of a Multi/Composite selector that mixes text-selecting parts with other
    /// kinds is not settled by the documentation (only "textual order" for text), and the joined text depends on it
    pub fn text_order_unsettled(&self) -> bool {
        self.anns.values().any(|a| match &a.target {
            MSel::Multi(v) | MSel::Composite(v) => {
                a.target.textselections().len() >= 2
                    && v.iter().any(|s| !matches!(s, MSel::Text { .. } | MSel::Ann { off: Some(_), .. }))
            }
            _ => false,
        })
    }

    pub fn shape(&self) -> String {
        format!(
            "r{}s{}a{}k{}d{}",
            self.resources.len(),
            self.sets.len(),
            self.anns.len(),
            self.sets.values().map(|s| s.keys.len()).sum::<usize>(),
            self.sets.values().map(|s| s.data.len()).sum::<usize>()
        )
    }
}
