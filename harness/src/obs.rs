//! Canonical observation of a real store through the public API (DESIGN.md 3.4).
//! Produces the same JSON shape as `Model::observe`.

use crate::model::value_json as typed_value_json;
use std::sync::atomic::{AtomicBool, Ordering};

/// when set, values are observed as their text (`Display`) only: the CSV format stores values as text (C15)
pub static VALUE_AS_TEXT: AtomicBool = AtomicBool::new(false);

fn value_json(v: &DataValue) -> Value {
    if VALUE_AS_TEXT.load(Ordering::Relaxed) {
        Value::String(format!("{}", v))
    } else {
        typed_value_json(v)
    }
}
use crate::util::{guard, Panic};
use serde_json::{json, Value};
use stam::*;
use std::collections::BTreeMap;

pub struct Names {
    ann: BTreeMap<usize, String>,
}

impl Names {
    pub fn new(store: &AnnotationStore) -> Self {
        let mut ann = BTreeMap::new();
        let mut ordinal = 0usize;
        for a in store.annotations() {
            let name = match a.id() {
                Some(id) if !VALUE_AS_TEXT.load(Ordering::Relaxed) => id.to_string(),
                _ => format!("#{}", ordinal),
            };
            ann.insert(a.handle().as_usize(), name);
            ordinal += 1;
        }
        Names { ann }
    }
    pub fn ann(&self, h: AnnotationHandle) -> String {
        self.ann
            .get(&h.as_usize())
            .cloned()
            .unwrap_or(format!("<dead annotation {}>", h.as_usize()))
    }
}

pub fn res_name(store: &AnnotationStore, h: TextResourceHandle) -> String {
    match store.resource(h) {
        Some(r) => r.id().unwrap_or("<no id>").to_string(),
        None => format!("<dead resource {}>", h.as_usize()),
    }
}

pub fn set_name(store: &AnnotationStore, h: AnnotationDataSetHandle) -> String {
    match store.dataset(h) {
        Some(r) => r.id().unwrap_or("<no id>").to_string(),
        None => format!("<dead dataset {}>", h.as_usize()),
    }
}

pub fn key_name(store: &AnnotationStore, s: AnnotationDataSetHandle, k: DataKeyHandle) -> String {
    match store.dataset(s).and_then(|set| set.key(k)) {
        Some(key) => key.id().unwrap_or("<no id>").to_string(),
        None => format!("<dead key {}/{}>", s.as_usize(), k.as_usize()),
    }
}

pub fn data_name_of(d: &ResultItem<AnnotationData>) -> String {
    match d.id() {
        Some(id) => id.to_string(),
        None => format!("({}={})", d.key().id().unwrap_or("<no id>"), value_json(d.value())),
    }
}

pub fn data_name(store: &AnnotationStore, s: AnnotationDataSetHandle, d: AnnotationDataHandle) -> String {
    match store.dataset(s).and_then(|set| set.annotationdata(d)) {
        Some(data) => {
            // the key may dangle after a faulty removal: do not go through data.key() blindly
            let keyh = data.as_ref().key();
            match data.id() {
                Some(id) if !VALUE_AS_TEXT.load(Ordering::Relaxed) => id.to_string(),
                _ => {
                    let base = format!("({}={})", key_name(store, s, keyh), value_json(data.value()));
                    if VALUE_AS_TEXT.load(Ordering::Relaxed) {
                        // values of different types may have the same text: number equal names in handle order
                        let set = store.dataset(s).expect("dataset");
                        let n = set
                            .data()
                            .filter(|o| o.handle() < d && o.as_ref().key() == keyh && format!("{}", o.value()) == format!("{}", data.value()))
                            .count();
                        if n > 0 {
                            return format!("{}#{}", base, n);
                        }
                    }
                    base
                }
            }
        }
        None => format!("<dead data {}/{}>", s.as_usize(), d.as_usize()),
    }
}

fn range_of(store: &AnnotationStore, res: TextResourceHandle, tsel: TextSelectionHandle) -> (Value, Value) {
    match store.resource(res) {
        Some(r) => {
            let ts: Result<&TextSelection, _> = r.as_ref().get(tsel);
            match ts {
                Ok(ts) => (json!(ts.begin()), json!(ts.end())),
                Err(_) => (json!("<dead textselection>"), json!("<dead textselection>")),
            }
        }
        None => (json!("<dead resource>"), json!("<dead resource>")),
    }
}

pub fn sel_json(store: &AnnotationStore, names: &Names, sel: &Selector) -> Value {
    match sel {
        Selector::TextSelector(res, tsel, mode) => {
            let (b, e) = range_of(store, *res, *tsel);
            json!({"k": "TextSelector", "res": res_name(store, *res), "b": b, "e": e, "mode": format!("{:?}", mode)})
        }
        Selector::AnnotationSelector(a, None) => json!({"k": "AnnotationSelector", "a": names.ann(*a)}),
        Selector::AnnotationSelector(a, Some((res, tsel, mode))) => {
            let (b, e) = range_of(store, *res, *tsel);
            json!({"k": "AnnotationSelector", "a": names.ann(*a), "res": res_name(store, *res), "b": b, "e": e, "mode": format!("{:?}", mode)})
        }
        Selector::ResourceSelector(r) => json!({"k": "ResourceSelector", "res": res_name(store, *r)}),
        Selector::DataSetSelector(s) => json!({"k": "DataSetSelector", "set": set_name(store, *s)}),
        Selector::DataKeySelector(s, k) => json!({"k": "DataKeySelector", "set": set_name(store, *s), "key": key_name(store, *s, *k)}),
        Selector::AnnotationDataSelector(s, d) => {
            json!({"k": "AnnotationDataSelector", "set": set_name(store, *s), "data": data_name(store, *s, *d)})
        }
        Selector::MultiSelector(v) | Selector::CompositeSelector(v) | Selector::DirectionalSelector(v) => {
            let mut subs: Vec<Value> = Vec::new();
            for sub in v {
                match sub {
                    Selector::RangedTextSelector { .. } | Selector::RangedAnnotationSelector { .. } => {
                        for s in sub.iter(store, false) {
                            subs.push(sel_json(store, names, s.as_ref()));
                        }
                    }
                    _ => subs.push(sel_json(store, names, sub)),
                }
            }

            let directional = matches!(sel, Selector::DirectionalSelector(_));
            if !directional {
                subs.sort_by_key(|x| x.to_string());
            }
            json!({"k": sel.kind().as_str(), "sub": subs})
        }
        Selector::RangedTextSelector { .. } | Selector::RangedAnnotationSelector { .. } => {
            json!({"k": "<internal ranged selector at top level>"})
        }
    }
}

fn ann_names<'a>(names: &Names, iter: impl Iterator<Item = ResultItem<'a, Annotation>>) -> Value {
    Value::Array(iter.map(|a| json!(names.ann(a.handle()))).collect())
}

/// Observation of the whole store. Any panic inside an accessor is returned as Err.
pub fn observe(store: &AnnotationStore, with_handles: bool, with_lookups: bool) -> Result<Value, Panic> {
    guard(|| observe_unguarded(store, with_handles, with_lookups))
}

/// does following the annotation selectors of this annotation come back to an annotation already on the path (only possible in a
/// store whose references were corrupted, e.g. by the recorded reindex finding)? The library's recursive walks do not end then.
fn annotation_cycle_from(store: &AnnotationStore, start: &Selector) -> bool {
    fn targets(sel: &Selector, out: &mut Vec<AnnotationHandle>) {
        match sel {
            Selector::AnnotationSelector(h, _) => out.push(*h),
            Selector::RangedAnnotationSelector { begin, end, .. } => {
                for i in begin.as_usize()..=end.as_usize() {
                    out.push(AnnotationHandle::new(i));
                }
            }
            Selector::MultiSelector(v) | Selector::CompositeSelector(v) | Selector::DirectionalSelector(v) => v.iter().for_each(|s| targets(s, out)),
            _ => {}
        }
    }
    // (the walk goes from slot to slot, like the library's: after the recorded reindex finding an item's own handle may name another slot)
    fn walk(store: &AnnotationStore, sel: &Selector, path: &mut Vec<AnnotationHandle>, budget: &mut usize) -> bool {
        let mut t = Vec::new();
        targets(sel, &mut t);
        for h in t {
            if path.contains(&h) || *budget == 0 {
                return true;
            }
            *budget -= 1;
            let Some(a) = store.annotation(h) else { continue };
            path.push(h);
            let r = walk(store, a.as_ref().target(), path, budget);
            path.pop();
            if r {
                return true;
            }
        }
        false
    }
    let mut budget = 2000;
    walk(store, start, &mut Vec::new(), &mut budget)
}

fn res_names(mut v: Vec<(usize, String)>) -> Vec<String> {
    v.sort();
    v.into_iter().map(|x| x.1).collect()
}

fn observe_unguarded(store: &AnnotationStore, with_handles: bool, with_lookups: bool) -> Value {
    let names = Names::new(store);
    let mut resources = Vec::new();
    for r in store.resources() {
        let mut o = json!({"id": r.id(), "text": r.text()});
        if with_handles {
            o["h"] = json!(r.handle().as_usize());
        }
        resources.push(o);
    }
    let mut datasets = Vec::new();
    for s in store.datasets() {
        let mut keys = Vec::new();
        for k in s.keys() {
            let mut o = json!({"id": k.id()});
            if with_handles {
                o["h"] = json!(k.handle().as_usize());
            }
            keys.push(o);
        }
        let mut data = Vec::new();
        for d in s.data() {
            let mut o = json!({"name": data_name(store, s.handle(), d.handle()), "id": d.id(), "key": key_name(store, s.handle(), d.as_ref().key()), "value": value_json(d.value())});
            if with_handles {
                o["h"] = json!(d.handle().as_usize());
            }
            data.push(o);
        }
        let mut o = json!({"id": s.id(), "keys": keys, "data": data});
        if with_handles {
            o["h"] = json!(s.handle().as_usize());
        }
        datasets.push(o);
    }
    let mut annotations = Vec::new();
    for a in store.annotations() {
        // (resource handle, begin, end, resource id, text); the order inside Multi/Composite selectors is not
        // part of what the properties demand, so it is canonicalised; Directional keeps the order as built
        let mut parts: Vec<(usize, usize, usize, String, String)> = a
            .textselections()
            .map(|t| (t.resource().handle().as_usize(), t.begin(), t.end(), t.resource().id().unwrap_or("").to_string(), t.text().to_string()))
            .collect();
        if !matches!(a.as_ref().target(), Selector::DirectionalSelector(_)) {
            parts.sort();
        }
        let tsel: Vec<Value> = parts.iter().map(|p| json!([p.3, p.1, p.2])).collect();
        let text: Vec<&str> = parts.iter().map(|p| p.4.as_str()).collect();
        let data: Vec<Value> = a
            .as_ref()
            .raw_data()
            .iter()
            .map(|(s, d)| json!([set_name(store, *s), data_name(store, *s, *d)]))
            .collect();
        let cyclic = annotation_cycle_from(store, a.as_ref().target());
        let mut o = json!({
            "name": names.ann(a.handle()),
            "id": a.id(),
            "target": sel_json(store, &names, a.as_ref().target()),
            "data": data,
            "textselections": tsel,
            "text": text,
            "resources": if cyclic { vec!["<annotation selectors form a cycle>".to_string()] } else { res_names(a.resources().map(|r| (r.handle().as_usize(), r.id().unwrap_or("").to_string())).collect()) },
            "resources_as_metadata": if cyclic { vec!["<annotation selectors form a cycle>".to_string()] } else { res_names(a.resources_as_metadata().map(|r| (r.handle().as_usize(), r.id().unwrap_or("").to_string())).collect()) },
        });
        if with_handles {
            o["h"] = json!(a.handle().as_usize());
        }
        annotations.push(o);
    }
    let mut out = json!({"resources": resources, "datasets": datasets, "annotations": annotations});
    if with_lookups {
        out["lookups"] = lookups(store, &names);
    }
    out
}

pub fn lookups(store: &AnnotationStore, names: &Names) -> Value {
    let mut out = serde_json::Map::new();
    let mut res = serde_json::Map::new();
    for r in store.resources() {
        let mut ts = serde_json::Map::new();
        let handles: Vec<(TextSelectionHandle, usize, usize)> = r
            .as_ref()
            .textselections_unsorted()
            .filter_map(|t| t.handle().map(|h| (h, t.begin(), t.end())))
            .collect();
        for (h, b, e) in handles {
            let key = format!("{}-{}", b, e);
            let entry = match r.textselection_by_handle(h) {
                Ok(rts) => json!({"annotations": ann_names(names, rts.annotations()), "annotations_len": rts.annotations_len()}),
                Err(_) => json!("<textselection_by_handle failed>"),
            };
            if ts.contains_key(&key) {
                ts.insert(format!("{} DUPLICATE handle {}", key, h.as_usize()), entry);
            } else {
                ts.insert(key, entry);
            }
        }
        res.insert(
            r.id().unwrap_or("<no id>").to_string(),
            json!({
                "annotations": ann_names(names, r.annotations()),
                "annotations_as_metadata": ann_names(names, r.annotations_as_metadata()),
                "textselections": ts,
            }),
        );
    }
    out.insert("resources".into(), Value::Object(res));
    let mut sets = serde_json::Map::new();
    for s in store.datasets() {
        let mut keys = serde_json::Map::new();
        for k in s.keys() {
            let data: Vec<Value> = k.data().map(|d| json!(data_name(store, s.handle(), d.handle()))).collect();
            keys.insert(
                k.id().unwrap_or("<no id>").to_string(),
                json!({
                    "data": data,
                    "annotations": ann_names(names, k.annotations()),
                    "annotations_count": k.annotations_count(),
                    "annotations_as_metadata": ann_names(names, k.annotations_as_metadata()),
                }),
            );
        }
        let mut data = serde_json::Map::new();
        for d in s.data() {
            data.insert(
                data_name(store, s.handle(), d.handle()),
                json!({
                    "annotations": ann_names(names, d.annotations()),
                    "annotations_len": d.annotations_len(),
                    "annotations_as_metadata": ann_names(names, d.annotations_as_metadata()),
                }),
            );
        }
        sets.insert(
            s.id().unwrap_or("<no id>").to_string(),
            json!({"annotations_as_metadata": ann_names(names, s.annotations()), "keys": keys, "data": data}),
        );
    }
    out.insert("datasets".into(), Value::Object(sets));
    let mut anns = serde_json::Map::new();
    for a in store.annotations() {
        let directional = matches!(a.as_ref().target(), Selector::DirectionalSelector(_));
        let mut in_targets: Vec<Value> = a
            .annotations_in_targets(AnnotationDepth::One)
            .map(|x| json!(names.ann(x.handle())))
            .collect();
        if !directional {
            in_targets.sort_by_key(|x| x.to_string());
        }
        let mut in_targets_max: Vec<Value> = a
            .annotations_in_targets(AnnotationDepth::Max)
            .map(|x| json!(names.ann(x.handle())))
            .collect();
        in_targets_max.sort_by_key(|x| x.to_string());
        let via_handles: Vec<Value> = a.annotations_handles().iter().map(|h| json!(names.ann(h))).collect();
        let via_iter = ann_names(names, a.annotations());
        let mut entry = json!({
            "annotations": via_iter,
            "annotations_in_targets": in_targets,
            "annotations_in_targets_max": in_targets_max,
        });
        if Value::Array(via_handles.clone()) != entry["annotations"] {
            // annotations_handles() exposes stale entries that annotations() skips: show both
            entry["annotations_handles_differs"] = Value::Array(via_handles);
        }
        anns.insert(names.ann(a.handle()), entry);
    }
    out.insert("annotations".into(), Value::Object(anns));
    Value::Object(out)
}
