//! C05 — STAM JSON round trip preserves the whole model; the second write equals the first.

use crate::gen::GenCfg;
use crate::hist::*;
use crate::model::Op;
use crate::obs;
use crate::util::*;
use serde_json::{json, Value};
use stam::*;

fn first_text_diff(a: &str, b: &str) -> Value {
    let la: Vec<&str> = a.lines().collect();
    let lb: Vec<&str> = b.lines().collect();
    for i in 0..la.len().max(lb.len()) {
        if la.get(i) != lb.get(i) {
            return json!({"line": i, "first": la.get(i), "second": lb.get(i), "context": la.get(i.saturating_sub(3)..i).map(|x| x.to_vec())});
        }
    }
    json!(null)
}

/// class of the JSON construct in which two serialisations first differ (for signatures)
fn text_diff_class(a: &str, b: &str) -> String {
    let la: Vec<&str> = a.lines().collect();
    let lb: Vec<&str> = b.lines().collect();
    for i in 0..la.len().max(lb.len()) {
        if la.get(i) != lb.get(i) {
            let l = la.get(i).or(lb.get(i)).copied().unwrap_or("");
            let key: String = l.trim().trim_start_matches('"').chars().take_while(|c| c.is_alphanumeric() || *c == '@').collect();
            return if key.is_empty() { "structure".into() } else { key };
        }
    }
    "none".into()
}

/// text selections that no annotation uses are bookkeeping of the in-memory store, not part of the model
pub fn strip_orphans(v: &Value) -> Value {
    let mut v = v.clone();
    if let Some(res) = v.pointer_mut("/lookups/resources").and_then(|x| x.as_object_mut()) {
        for (_, r) in res.iter_mut() {
            if let Some(ts) = r.get_mut("textselections").and_then(|x| x.as_object_mut()) {
                ts.retain(|_, e| e["annotations_len"].as_u64().unwrap_or(1) > 0 || e["annotations"].as_array().map(|a| !a.is_empty()).unwrap_or(true));
            }
        }
    }
    v
}

pub fn compare(rep: &mut Report, prop: &str, variant: &str, before: &Value, after: &Value, h: &History, extra: Value) -> bool {
    rep.eval();
    let before = &strip_orphans(before);
    let after = &strip_orphans(after);
    if let Some((path, x, y)) = first_diff(before, after, "") {
        rep.violation(
            format!("{}/{}/differs{}/{}", prop, variant, path_class(&path), diff_kind(&x, &y)),
            json!({"path": path, "original": x, "reloaded": y, "history": h.replay_json(), "extra": extra}),
        );
        false
    } else {
        true
    }
}

fn inline_roundtrip(rep: &mut Report, h: &History, compact: bool, before: &Value) {
    let variant = if compact { "inline-compact" } else { "inline-pretty" };
    let cfg = Config::default().with_use_include(false).with_dataformat(DataFormat::Json { compact });
    rep.eval();
    let json1 = match guard(|| h.store.to_json_string(&cfg)) {
        Ok(Ok(s)) => s,
        Ok(Err(e)) => {
            rep.violation(format!("C05/{}/write-error/{}", variant, normalise_msg(&format!("{}", e))), json!({"error": format!("{}", e), "history": h.replay_json()}));
            return;
        }
        Err(p) => {
            rep.violation(format!("C05/{}/write-panic/{}", variant, p.class()), json!({"panic": p.msg, "at": p.loc, "history": h.replay_json()}));
            return;
        }
    };
    // well-formed JSON at all?
    if serde_json::from_str::<Value>(&json1).is_err() {
        rep.violation(format!("C05/{}/output-is-not-json", variant), json!({"history": h.replay_json()}));
        return;
    }
    rep.eval();
    let loaded = match guard(|| AnnotationStore::from_str(&json1, Config::default().with_debug(false))) {
        Ok(Ok(s)) => s,
        Ok(Err(e)) => {
            let msg = format!("{}", e);
            rep.violation(
                format!("C05/{}/reload-error/{}", variant, normalise_msg(&msg).chars().take(90).collect::<String>()),
                json!({"error": msg, "history": h.replay_json()}),
            );
            return;
        }
        Err(p) => {
            rep.violation(format!("C05/{}/reload-panic/{}", variant, p.class()), json!({"panic": p.msg, "at": p.loc, "history": h.replay_json()}));
            return;
        }
    };
    match obs::observe(&loaded, false, true) {
        Ok(after) => {
            compare(rep, "C05", variant, before, &after, h, json!(null));
        }
        Err(p) => {
            rep.violation(format!("C05/{}/observe-reloaded-panic/{}", variant, p.class()), json!({"panic": p.msg, "history": h.replay_json()}));
            return;
        }
    }
    rep.eval();
    match guard(|| loaded.to_json_string(&cfg)) {
        Ok(Ok(json2)) => {
            if json2 != json1 {
                rep.violation(
                    format!("C05/{}/second-write-differs/{}", variant, text_diff_class(&json1, &json2)),
                    json!({"diff": first_text_diff(&json1, &json2), "history": h.replay_json()}),
                );
            }
        }
        Ok(Err(e)) => rep.violation(format!("C05/{}/second-write-error", variant), json!({"error": format!("{}", e), "history": h.replay_json()})),
        Err(p) => rep.violation(format!("C05/{}/second-write-panic/{}", variant, p.class()), json!({"panic": p.msg, "history": h.replay_json()})),
    }
}

/// stand-off variant: resources in .txt / .json files and datasets in .json files next to the store file
fn standoff_roundtrip(rep: &mut Report, h: &mut History, dir: &str, before: &Value, json_resources: bool) {
    let variant = if json_resources { "standoff-json" } else { "standoff-txt" };
    let _ = std::fs::remove_dir_all(dir);
    std::fs::create_dir_all(dir).expect("workdir");
    // give every resource and dataset a stand-off file name
    let rhandles: Vec<TextResourceHandle> = h.store.resources().map(|r| r.handle()).collect();
    for (i, rh) in rhandles.iter().enumerate() {
        let r: &mut TextResource = h.store.get_mut(*rh).expect("resource");
        r.set_filename(&format!("res{}.{}", i, if json_resources { "resource.stam.json" } else { "txt" }));
    }
    let shandles: Vec<AnnotationDataSetHandle> = h.store.datasets().map(|s| s.handle()).collect();
    for (i, sh) in shandles.iter().enumerate() {
        let s: &mut AnnotationDataSet = h.store.get_mut(*sh).expect("dataset");
        s.set_filename(&format!("set{}.annotationset.stam.json", i));
    }
    let path = format!("{}/store.store.stam.json", dir);
    rep.eval();
    match guard(|| h.store.to_file(&path)) {
        Ok(Ok(())) => {}
        Ok(Err(e)) => {
            rep.violation(format!("C05/{}/write-error/{}", variant, normalise_msg(&format!("{}", e)).chars().take(80).collect::<String>()), json!({"error": format!("{}", e), "history": h.replay_json()}));
            return;
        }
        Err(p) => {
            rep.violation(format!("C05/{}/write-panic/{}", variant, p.class()), json!({"panic": p.msg, "at": p.loc, "history": h.replay_json()}));
            return;
        }
    }
    let main1 = std::fs::read_to_string(&path).unwrap_or_default();
    let uses_include = main1.contains("@include");
    if !uses_include && (!rhandles.is_empty() || !shandles.is_empty()) {
        rep.violation(format!("C05/{}/no-include-written", variant), json!({"history": h.replay_json()}));
    }
    rep.eval();
    let loaded = match guard(|| AnnotationStore::from_file(&path, Config::default().with_debug(false))) {
        Ok(Ok(s)) => s,
        Ok(Err(e)) => {
            let msg = format!("{}", e);
            let empty_resource = h.model.resources.values().any(|r| r.text.is_empty());
            let untouched_set = h.model.sets.values().any(|s| s.next_key == 0 && s.next_data == 0);
            let missing = msg.contains("IOError") && msg.contains("No such file");
            if missing && ((empty_resource && msg.contains("/res")) || (untouched_set && msg.contains("/set"))) {
                // root cause: giving an in-memory member a stand-off filename does not mark it as changed when it is empty
                // (resource: set_filename() checks !text.is_empty(); dataset: only insertions mark it), so its file is
                // never written although the store file @includes it
                rep.violation(
                    "C05/standoff/explained:stand-off-file-of-empty-member-never-written",
                    json!({"error": msg, "history": h.replay_json()}),
                );
                return;
            }
            rep.violation(
                format!("C05/{}/reload-error/{}", variant, normalise_msg(&msg).chars().take(90).collect::<String>()),
                json!({"error": msg, "history": h.replay_json()}),
            );
            return;
        }
        Err(p) => {
            rep.violation(format!("C05/{}/reload-panic/{}", variant, p.class()), json!({"panic": p.msg, "at": p.loc, "history": h.replay_json()}));
            return;
        }
    };
    match obs::observe(&loaded, false, true) {
        Ok(after) => {
            compare(rep, "C05", variant, before, &after, h, json!({"files": std::fs::read_dir(dir).map(|d| d.count()).unwrap_or(0)}));
        }
        Err(p) => {
            rep.violation(format!("C05/{}/observe-reloaded-panic/{}", variant, p.class()), json!({"panic": p.msg, "history": h.replay_json()}));
            return;
        }
    }
    // writing the reloaded store again (in place) must reproduce every file byte for byte
    let mut names: Vec<String> = std::fs::read_dir(dir).map(|d| d.filter_map(|e| e.ok()).map(|e| e.file_name().to_string_lossy().to_string()).collect()).unwrap_or_default();
    names.sort();
    let first: Vec<(String, String)> = names.iter().map(|n| (n.clone(), std::fs::read_to_string(format!("{}/{}", dir, n)).unwrap_or_default())).collect();
    let mut loaded = loaded;
    rep.eval();
    match guard(|| loaded.to_file(&path)) {
        Ok(Ok(())) => {
            for (n, a) in &first {
                let kind = n.split('.').skip(1).collect::<Vec<_>>().join(".");
                match std::fs::read_to_string(format!("{}/{}", dir, n)) {
                    Ok(b) if *a == b => {}
                    Ok(b) => rep.violation(
                        format!("C05/{}/second-write-differs/{}/{}", variant, kind, text_diff_class(a, &b)),
                        json!({"file": n, "diff": first_text_diff(a, &b), "history": h.replay_json()}),
                    ),
                    Err(_) => rep.violation(format!("C05/{}/second-write-missing-file/{}", variant, kind), json!({"file": n, "history": h.replay_json()})),
                }
            }
        }
        Ok(Err(e)) => rep.violation(format!("C05/{}/second-write-error", variant), json!({"error": format!("{}", e), "history": h.replay_json()})),
        Err(p) => rep.violation(format!("C05/{}/second-write-panic/{}", variant, p.class()), json!({"panic": p.msg, "history": h.replay_json()})),
    }
    let dir2 = format!("{}-second", dir);
    let _ = std::fs::remove_dir_all(dir);
    let _ = std::fs::remove_dir_all(&dir2);
}

/// save, change the store a little, save again: the stand-off files of exactly the changed members must be rewritten
fn standoff_incremental(rep: &mut Report, h: &mut History, dir: &str, rng: &mut Rng, cfg: GenCfg) {
    let _ = std::fs::remove_dir_all(dir);
    std::fs::create_dir_all(dir).expect("workdir");
    let rhandles: Vec<TextResourceHandle> = h.store.resources().map(|r| r.handle()).collect();
    for (i, rh) in rhandles.iter().enumerate() {
        let r: &mut TextResource = h.store.get_mut(*rh).expect("resource");
        // (other names than in the round trip above, so that every member is written to this directory)
        r.set_filename(&format!("inc-res{}.txt", i));
    }
    let shandles: Vec<AnnotationDataSetHandle> = h.store.datasets().map(|s| s.handle()).collect();
    for (i, sh) in shandles.iter().enumerate() {
        let s: &mut AnnotationDataSet = h.store.get_mut(*sh).expect("dataset");
        s.set_filename(&format!("inc-set{}.annotationset.stam.json", i));
    }
    let path = format!("{}/store.store.stam.json", dir);
    if !matches!(guard(|| h.store.to_file(&path)), Ok(Ok(()))) {
        let _ = std::fs::remove_dir_all(dir);
        return; // judged by the plain stand-off variant
    }
    // a few more operations on the saved store
    let mut g = crate::gen::Gen::new(cfg);
    for _ in 0..60 {
        let _ = g.fresh_id(rng, "z");
    }
    let mut kinds: Vec<&'static str> = Vec::new();
    for _ in 0..rng.range(1, 4) {
        let op = g.gen_op(rng, &h.model);
        if matches!(op, Op::AddResource { .. } | Op::AddDataset { .. } | Op::ProtectText(_)) {
            continue; // new members have no stand-off file name; not what this variant is about
        }
        let r = h.step(&op);
        if !r.agreement.in_step() {
            let _ = std::fs::remove_dir_all(dir);
            return;
        }
        if matches!(r.agreement, Agreement::Ok) {
            kinds.push(op.kind());
        }
    }
    if kinds.is_empty() {
        let _ = std::fs::remove_dir_all(dir);
        return;
    }
    kinds.sort();
    kinds.dedup();
    let Ok(before) = obs::observe(&h.store, false, true) else {
        let _ = std::fs::remove_dir_all(dir);
        return;
    };
    rep.eval();
    rep.distinct(&format!("incremental|{}", kinds.join("+")));
    match guard(|| h.store.save()) {
        Ok(Ok(())) => {}
        Ok(Err(e)) => {
            rep.violation(format!("C05/standoff-incremental/save-error/after:{}", kinds.join("+")), json!({"error": format!("{}", e), "history": h.replay_json()}));
            let _ = std::fs::remove_dir_all(dir);
            return;
        }
        Err(p) => {
            rep.violation(format!("C05/standoff-incremental/save-panic/{}", p.class()), json!({"panic": p.msg, "at": p.loc, "history": h.replay_json()}));
            let _ = std::fs::remove_dir_all(dir);
            return;
        }
    }
    match guard(|| AnnotationStore::from_file(&path, Config::default().with_debug(false))) {
        Ok(Ok(loaded)) => match obs::observe(&loaded, false, true) {
            Ok(after) => {
                compare(rep, "C05", &format!("standoff-incremental/after:{}", kinds.join("+")), &before, &after, h, json!({"operations_after_first_save": kinds}));
            }
            Err(p) => rep.violation(format!("C05/standoff-incremental/observe-reloaded-panic/{}", p.class()), json!({"panic": p.msg, "history": h.replay_json()})),
        },
        Ok(Err(e)) => {
            let msg = format!("{}", e);
            let empty_member = h.model.resources.values().any(|r| r.text.is_empty()) || h.model.sets.values().any(|s| s.next_key == 0 && s.next_data == 0);
            if msg.contains("No such file") && empty_member {
                rep.violation("C05/standoff/explained:stand-off-file-of-empty-member-never-written", json!({"error": msg, "history": h.replay_json()}));
            } else {
                rep.violation(format!("C05/standoff-incremental/reload-error/after:{}/{}", kinds.join("+"), normalise_msg(&msg).chars().take(70).collect::<String>()), json!({"error": msg, "history": h.replay_json()}));
            }
        }
        Err(p) => rep.violation(format!("C05/standoff-incremental/reload-panic/{}", p.class()), json!({"panic": p.msg, "at": p.loc, "history": h.replay_json()})),
    }
    let _ = std::fs::remove_dir_all(dir);
}

/// which items belong to which sub-store (by name), next to the ordinary observation
fn substore_view(store: &AnnotationStore) -> Result<Value, Panic> {
    guard(|| {
        let mut subs = Vec::new();
        for sub in store.substores() {
            let mut anns: Vec<String> = sub.annotations().map(|a| a.id().map(|s| s.to_string()).unwrap_or_else(|| format!("#{}", a.handle().as_usize()))).collect();
            anns.sort();
            let mut res: Vec<String> = sub.resources().map(|r| r.id().unwrap_or("").to_string()).collect();
            res.sort();
            let mut sets: Vec<String> = sub.datasets().map(|r| r.id().unwrap_or("").to_string()).collect();
            sets.sort();
            subs.push(json!({"id": sub.id(), "annotations": anns, "resources": res, "datasets": sets}));
        }
        let mut own: Vec<String> = store.annotations_no_substores().map(|a| a.id().map(|s| s.to_string()).unwrap_or_else(|| format!("#{}", a.handle().as_usize()))).collect();
        own.sort();
        json!({"substores": subs, "annotations_of_the_main_store": own})
    })
}

/// one level of sub-stores: a store written on its own, included into a main store that adds items of its own
fn substore_roundtrip(rep: &mut Report, h: &mut History, dir: &str, rng: &mut Rng) {
    let _ = std::fs::remove_dir_all(dir);
    std::fs::create_dir_all(dir).expect("workdir");
    let subpath = format!("{}/sub.store.stam.json", dir);
    // the sub-store is the store of the history, written inline
    h.store.set_filename(&subpath);
    let saved = guard(|| {
        let cfg = h.store.config().clone().with_use_include(false);
        h.store.to_json_file(&subpath, &cfg)
    });
    if !matches!(saved, Ok(Ok(()))) {
        let _ = std::fs::remove_dir_all(dir);
        return; // judged by the inline variant
    }
    rep.eval();
    let built = guard(|| -> Result<AnnotationStore, StamError> {
        let mut main = AnnotationStore::new(Config::default().with_debug(false).with_workdir(dir.to_string())).with_id("main");
        main.set_filename(&format!("{}/main.store.stam.json", dir));
        main.add_substore("sub.store.stam.json")?;
        // items of the main store itself: a resource, and annotations on it and on a resource of the sub-store
        main.add_resource(TextResourceBuilder::new().with_id("main-res").with_text("text of the main store"))?;
        main.annotate(AnnotationBuilder::new().with_id("main-a1").with_target(SelectorBuilder::textselector("main-res", Offset::simple(0, 4))).with_data("main-set", "k", "v"))?;
        Ok(main)
    });
    let mut main = match built {
        Ok(Ok(m)) => m,
        Ok(Err(e)) => {
            rep.violation(format!("C05/substore/build-error/{}", normalise_msg(&format!("{}", e)).chars().take(80).collect::<String>()), json!({"error": format!("{}", e), "history": h.replay_json()}));
            let _ = std::fs::remove_dir_all(dir);
            return;
        }
        Err(p) => {
            rep.violation(format!("C05/substore/build-panic/{}", p.class()), json!({"panic": p.msg, "at": p.loc, "history": h.replay_json()}));
            let _ = std::fs::remove_dir_all(dir);
            return;
        }
    };
    // an annotation of the main store on text of the sub-store
    let first_res: Option<(String, usize)> = h.model.resources.values().next().map(|r| (r.id.clone(), r.text.len()));
    if let Some((rid, len)) = first_res {
        if len > 0 && rng.chance(2, 3) {
            let _ = guard(|| main.annotate(AnnotationBuilder::new().with_id("main-a2").with_target(SelectorBuilder::textselector(rid.clone(), Offset::simple(0, 1))).with_data("main-set", "k", "w")));
        }
    }
    let (Ok(before), Ok(before_subs)) = (obs::observe(&main, false, true), substore_view(&main)) else {
        let _ = std::fs::remove_dir_all(dir);
        return;
    };
    rep.distinct(&format!("substore|{}", h.model.shape()));
    rep.eval();
    match guard(|| main.save()) {
        Ok(Ok(())) => {}
        Ok(Err(e)) => {
            rep.violation(format!("C05/substore/save-error/{}", normalise_msg(&format!("{}", e)).chars().take(80).collect::<String>()), json!({"error": format!("{}", e), "history": h.replay_json()}));
            let _ = std::fs::remove_dir_all(dir);
            return;
        }
        Err(p) => {
            rep.violation(format!("C05/substore/save-panic/{}", p.class()), json!({"panic": p.msg, "at": p.loc, "history": h.replay_json()}));
            let _ = std::fs::remove_dir_all(dir);
            return;
        }
    }
    let mainpath = format!("{}/main.store.stam.json", dir);
    let maintext = std::fs::read_to_string(&mainpath).unwrap_or_default();
    if !maintext.contains("@include") {
        rep.violation("C05/substore/main-store-does-not-include-the-sub-store".to_string(), json!({"main": maintext.chars().take(600).collect::<String>(), "history": h.replay_json()}));
    }
    match guard(|| AnnotationStore::from_file(&mainpath, Config::default().with_debug(false))) {
        Ok(Ok(mut loaded)) => {
            match (obs::observe(&loaded, false, true), substore_view(&loaded)) {
                (Ok(after), Ok(after_subs)) => {
                    rep.count("substore/roundtrips-compared");
                    rep.count(&format!("substore/annotations-in-substore:{}", after_subs["substores"][0]["annotations"].as_array().map(|a| a.len().min(3)).unwrap_or(0)));
                    compare(rep, "C05", "substore", &before, &after, h, json!({}));
                    if let Some((path, a, b)) = first_diff(&before_subs, &after_subs, "") {
                        rep.violation(format!("C05/substore/membership-differs{}", path_class(&path)), json!({"path": path, "before": a, "after": b, "history": h.replay_json()}));
                    }
                }
                _ => rep.violation("C05/substore/observe-reloaded-panic".to_string(), json!({"history": h.replay_json()})),
            }
            // writing the reloaded store again reproduces both files
            let subtext = std::fs::read_to_string(&subpath).unwrap_or_default();
            rep.eval();
            if let Ok(Ok(())) = guard(|| loaded.save()) {
                let main2 = std::fs::read_to_string(&mainpath).unwrap_or_default();
                let sub2 = std::fs::read_to_string(&subpath).unwrap_or_default();
                if main2 != maintext {
                    rep.violation(format!("C05/substore/second-write-differs/main/{}", text_diff_class(&maintext, &main2)), json!({"diff": first_text_diff(&maintext, &main2), "history": h.replay_json()}));
                }
                if sub2 != subtext {
                    rep.violation(format!("C05/substore/second-write-differs/sub/{}", text_diff_class(&subtext, &sub2)), json!({"diff": first_text_diff(&subtext, &sub2), "history": h.replay_json()}));
                }
            }
        }
        Ok(Err(e)) => rep.violation(format!("C05/substore/reload-error/{}", normalise_msg(&format!("{}", e)).chars().take(80).collect::<String>()), json!({"error": format!("{}", e), "main": maintext.chars().take(500).collect::<String>(), "history": h.replay_json()})),
        Err(p) => rep.violation(format!("C05/substore/reload-panic/{}", p.class()), json!({"panic": p.msg, "at": p.loc, "history": h.replay_json()})),
    }
    let _ = std::fs::remove_dir_all(dir);
}

pub fn store_cfg(rng: &mut Rng) -> GenCfg {
    let mut cfg = GenCfg::default();
    cfg.hostile_ids = rng.chance(1, 2);
    cfg.allow_semicolon = true;
    cfg.max_anns = 12;
    cfg.keydata_in_complex = rng.chance(1, 3);
    cfg
}

pub fn run(p: &Params, rep: &mut Report) {
    rep.rule = "final states and prefixes of seeded op-histories (incl. removals -> gaps, id-less annotations and data, all selector kinds, all value types, hostile Unicode ids) are written to STAM JSON and read back under {pretty, compact} inline output and with resources (.txt / .json) and datasets kept in stand-off @include files; the canonical observation (items, ids or their absence, order, selector kinds, referenced items, absolute ranges and alignment, typed values, every reverse lookup) of the reloaded store must equal the original's, and writing the reloaded store again must reproduce the first output byte for byte. distinct_nontrivial = distinct (variant, store shape, has-gaps, has-idless) tuples".into();
    rep.assumptions = vec!["sub-stores: one level, exercised in the thorough tier only (variant 'substore')".into()];
    let total: u64 = if p.thorough { 8000 } else { 4000 };
    for k in p.cases(total) {
        rep.current_case = p.case_coord(k);
        rep.cases += 1;
        let mut rng = Rng::new(p.seed, "c05", k);
        let cfg = store_cfg(&mut rng);
        let nops = rng.range(4, if p.thorough { 30 } else { 20 }) as usize;
        let mut h = random_history(&mut rng, cfg, nops, 100, true);
        let before = match obs::observe(&h.store, false, true) {
            Ok(o) => o,
            Err(_) => continue,
        };
        let gaps = h.model.anns.len() != h.model.next_ann || h.model.sets.values().any(|s| s.data.len() != s.next_data || s.keys.len() != s.next_key);
        let idless = h.model.anns.values().any(|a| a.id.is_none()) || h.model.sets.values().any(|s| s.data.values().any(|d| d.id.is_none()));
        for v in ["pretty", "compact"] {
            rep.distinct(&format!("{}|{}|{}|{}", v, h.model.shape(), gaps, idless));
        }
        inline_roundtrip(rep, &h, false, &before);
        inline_roundtrip(rep, &h, true, &before);
        let dir = format!("{}/c05-{}", p.workdir, k);
        let jsonres = k % 2 == 0;
        rep.distinct(&format!("standoff{}|{}|{}", jsonres, h.model.shape(), gaps));
        standoff_roundtrip(rep, &mut h, &dir, &before, jsonres);
        // (the round trip above works on files of its own; the store in memory is still the original one)
        let mut cfg2 = store_cfg(&mut rng);
        cfg2.rm_boost = 4;
        standoff_incremental(rep, &mut h, &format!("{}-inc", dir), &mut rng, cfg2);
        if k % 3 == 0 {
            let cfg3 = store_cfg(&mut rng);
            let n3 = rng.range(4, 16) as usize;
            let mut h3 = random_history(&mut rng, cfg3, n3, 100, true);
            substore_roundtrip(rep, &mut h3, &format!("{}-sub", dir), &mut rng);
        }
        if k % 61 == 0 {
            rep.sample(json!({"case": k, "history": h.replay_json(), "gaps": gaps, "idless": idless, "variants": ["inline-pretty", "inline-compact", if jsonres {"standoff-json"} else {"standoff-txt"}]}));
        }
    }
}
