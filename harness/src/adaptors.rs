//! C01 (second part): adaptors on iterators of items against the per-item answers.

use crate::hist::History;
use crate::util::*;
use serde_json::json;
use stam::*;

/// The adaptors on iterators of items (`store.data().annotations()`, `annotations.data()`, `keys.annotations()` ...) are documented
/// as the per-item answers (judged against the model above) merged: chronological / textual order, no duplicates.
pub fn adaptors(h: &History, rep: &mut Report, rng: &mut Rng) {
    let store = &h.store;
    let pick = rng.below(3); // 0: everything, 1: every second item, 2: one item
    let keep = |i: usize| match pick {
        0 => true,
        1 => i % 2 == 0,
        _ => i == 0,
    };
    type V = Vec<(usize, usize, usize)>;
    let a3 = |a: &ResultItem<Annotation>| (0, 0, a.handle().as_usize());
    let d3 = |d: &ResultItem<AnnotationData>| (0, d.set().handle().as_usize(), d.handle().as_usize());
    let k3 = |k: &ResultItem<DataKey>| (0, k.set().handle().as_usize(), k.handle().as_usize());
    let r3 = |r: &ResultItem<TextResource>| (0, 0, r.handle().as_usize());
    let t3 = |t: &ResultTextSelection| (t.resource().handle().as_usize(), t.begin(), t.end());
    let merged = |mut v: V, dedup: bool| -> V {
        v.sort();
        if dedup {
            v.dedup();
        }
        v
    };
    let mut checks: Vec<(&str, Result<(V, V), Panic>, bool)> = Vec::new();
    let anns = || store.annotations().enumerate().filter(|(i, _)| keep(*i)).map(|(_, a)| a);
    let data = || store.data().enumerate().filter(|(i, _)| keep(*i)).map(|(_, d)| d);
    let keys = || store.keys().enumerate().filter(|(i, _)| keep(*i)).map(|(_, k)| k);
    let ress = || store.resources().enumerate().filter(|(i, _)| keep(*i)).map(|(_, r)| r);
    checks.push(("annotations.annotations", guard(|| (anns().annotations().map(|a| a3(&a)).collect(), merged(anns().flat_map(|a| a.annotations().map(|x| a3(&x)).collect::<V>()).collect(), true))), true));
    checks.push(("annotations.annotations_in_targets(One)", guard(|| (anns().annotations_in_targets(AnnotationDepth::One).map(|a| a3(&a)).collect(), merged(anns().flat_map(|a| a.annotations_in_targets(AnnotationDepth::One).map(|x| a3(&x)).collect::<V>()).collect(), true))), true));
    checks.push(("annotations.annotations_in_targets(Max)", guard(|| (anns().annotations_in_targets(AnnotationDepth::Max).map(|a| a3(&a)).collect(), merged(anns().flat_map(|a| a.annotations_in_targets(AnnotationDepth::Max).map(|x| a3(&x)).collect::<V>()).collect(), true))), true));
    checks.push(("annotations.data", guard(|| (anns().data().map(|d| d3(&d)).collect(), merged(anns().flat_map(|a| a.data().map(|x| d3(&x)).collect::<V>()).collect(), true))), true));
    checks.push(("annotations.keys", guard(|| (anns().keys().map(|k| k3(&k)).collect(), merged(anns().flat_map(|a| a.keys().map(|x| k3(&x)).collect::<V>()).collect(), true))), true));
    checks.push(("annotations.resources", guard(|| (anns().resources().map(|r| r3(&r)).collect(), merged(anns().flat_map(|a| a.resources().map(|x| r3(&x)).collect::<V>()).collect(), true))), true));
    checks.push(("annotations.resources_as_metadata", guard(|| (anns().resources_as_metadata().map(|r| r3(&r)).collect(), merged(anns().flat_map(|a| a.resources_as_metadata().map(|x| r3(&x)).collect::<V>()).collect(), true))), true));
    checks.push(("annotations.textselections", guard(|| (anns().textselections().map(|t| t3(&t)).collect(), merged(anns().flat_map(|a| a.textselections().map(|x| t3(&x)).collect::<V>()).collect(), true))), false));
    checks.push(("data.annotations", guard(|| (data().annotations().map(|a| a3(&a)).collect(), merged(data().flat_map(|d| d.annotations().map(|x| a3(&x)).collect::<V>()).collect(), true))), true));
    checks.push(("data.keys", guard(|| (data().keys().map(|k| k3(&k)).collect(), merged(data().map(|d| k3(&d.key())).collect(), true))), true));
    checks.push(("keys.annotations", guard(|| (keys().annotations().map(|a| a3(&a)).collect(), merged(keys().flat_map(|k| k.annotations().map(|x| a3(&x)).collect::<V>()).collect(), true))), true));
    checks.push(("resources.annotations", guard(|| (ress().annotations().map(|a| a3(&a)).collect(), merged(ress().flat_map(|r| r.annotations().map(|x| a3(&x)).collect::<V>()).collect(), true))), true));
    checks.push(("resources.annotations_as_metadata", guard(|| (ress().annotations_as_metadata().map(|a| a3(&a)).collect(), merged(ress().flat_map(|r| r.annotations_as_metadata().map(|x| a3(&x)).collect::<V>()).collect(), true))), true));
    checks.push(("resources.textselections", guard(|| (ress().textselections().map(|t| t3(&t)).collect(), merged(ress().flat_map(|r| r.textselections().map(|x| t3(&x)).collect::<V>()).collect(), false))), false));
    checks.push(("textselections.annotations", guard(|| (store.annotations().textselections().annotations().map(|a| a3(&a)).collect(), merged(store.annotations().textselections().flat_map(|t| t.annotations().map(|x| a3(&x)).collect::<V>()).collect(), true))), true));
    for (name, r, ordered) in checks {
        rep.eval();
        match r {
            Err(pn) => rep.violation(format!("C01/adaptor/{}/panic/{}", name, pn.class()), json!({"panic": pn.msg, "at": pn.loc, "history": h.replay_json()})),
            Ok((got, want)) => {
                if !want.is_empty() {
                    rep.distinct(&format!("adaptor/{}/{}", name, pick));
                }
                let mut sorted = got.clone();
                sorted.sort();
                if sorted != want {
                    let mut dd = sorted.clone();
                    dd.dedup();
                    let kind = if dd == want { "duplicates" } else { "differs" };
                    rep.violation(format!("C01/adaptor/{}/{}", name, kind), json!({"items": (["all", "every second", "first"][pick]), "adaptor": got, "merged_per_item_answers": want, "history": h.replay_json()}));
                } else if ordered && got != want {
                    rep.violation(format!("C01/adaptor/{}/not-in-documented-order", name), json!({"adaptor": got, "sorted": want, "history": h.replay_json()}));
                }
            }
        }
    }
}

