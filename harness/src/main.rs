//! monitor <ID> --seed S --shard i/n --tier quick|thorough --out FILE [--case K] [--workdir DIR] [--budget N] [--variant V]
mod util;
mod model;
mod gen;
mod drive;
mod obs;
mod dumpcheck;
mod hist;
mod adaptors;

mod c01;
mod c02;
mod c03;
mod c04;
mod c05;
mod c06;
mod c07;
mod c08;
mod c09;
mod c10;
mod c11;
mod c12;
mod c13;
mod c14;
mod c15;
mod c16;
mod c17;
mod c18;
mod c19;
mod c20;

use util::*;

fn main() {
    let args: Vec<String> = std::env::args().collect();
    if args.len() < 2 {
        eprintln!("usage: monitor <ID> [--seed S] [--shard i/n] [--tier quick|thorough] [--out FILE] [--case K] [--workdir DIR]");
        std::process::exit(3);
    }
    let mut p = Params {
        prop: args[1].clone(),
        seed: 1,
        shard: 0,
        nshards: 1,
        thorough: false,
        only_case: None,
        workdir: "/tmp".into(),
        budget: None,
        variant: None,
    };
    let mut out: Option<String> = None;
    let mut i = 2;
    while i < args.len() {
        let a = args[i].as_str();
        let v = args.get(i + 1).cloned().unwrap_or_default();
        match a {
            "--seed" => p.seed = v.parse().expect("seed"),
            "--shard" => {
                let (x, y) = v.split_once('/').expect("shard i/n");
                p.shard = x.parse().expect("shard");
                p.nshards = y.parse().expect("nshards");
            }
            "--tier" => p.thorough = v == "thorough",
            "--out" => out = Some(v.clone()),
            "--case" => p.only_case = Some(v.parse().expect("case")),
            "--workdir" => p.workdir = v.clone(),
            "--budget" => p.budget = Some(v.parse().expect("budget")),
            "--variant" => p.variant = Some(v.clone()),
            _ => {
                eprintln!("unknown argument {}", a);
                std::process::exit(3);
            }
        }
        i += 2;
    }
    // a runaway allocation in the harness must not take the machine down (the sanitizer builds need their address space)
    if p.variant.as_deref() != Some("tsan") && p.variant.as_deref() != Some("miri") && !cfg!(miri) {
        unsafe {
            let lim = libc::rlimit { rlim_cur: 24 << 30, rlim_max: 24 << 30 };
            libc::setrlimit(libc::RLIMIT_AS, &lim);
        }
    }
    install_panic_hook();
    let mut rep = Report::new(&p.prop);
    let started = std::time::Instant::now();
    if std::env::var("VERIF_TRACE").is_ok() {
        c01::trace(&p, p.only_case.unwrap_or(0));
        return;
    }
    if p.prop == "C19CHILD" {
        c19::child(&p);
        return;
    }
    // a panic that escapes a monitor: inside the library it is an observation about the code under test (reported with the
    // case that was running); inside the harness it is a failure of the machinery and makes the run inconclusive
    let escaped = guard(|| match p.prop.as_str() {
        "C01" => c01::run(&p, &mut rep),
        "C02" => c02::run(&p, &mut rep),
        "C03" => c03::run(&p, &mut rep),
        "C04" => c04::run(&p, &mut rep),
        "C05" => c05::run(&p, &mut rep),
        "C06" => c06::run(&p, &mut rep),
        "C07" => c07::run(&p, &mut rep),
        "C08" => c08::run_monitor(&p, &mut rep),
        "C09" => c09::run(&p, &mut rep),
        "C10" => c10::run(&p, &mut rep),
        "C11" => c11::run(&p, &mut rep),
        "C12" => c12::run(&p, &mut rep),
        "C13" => c13::run(&p, &mut rep),
        "C14" => c14::run(&p, &mut rep),
        "C15" => c15::run(&p, &mut rep),
        "C16" => c16::run(&p, &mut rep),
        "C17" => c17::run(&p, &mut rep),
        "C18" => c18::run(&p, &mut rep),
        "C19" => c19::run(&p, &mut rep),
        "C20" => c20::run(&p, &mut rep),
        other => {
            eprintln!("no monitor for {}", other);
            std::process::exit(3);
        }
    });
    if let Err(pn) = escaped {
        if pn.loc.starts_with("/repo/") {
            let case = rep.current_case.clone();
            rep.violation(format!("{}/panic-in-the-library-while-monitoring/{}", p.prop, pn.class()), serde_json::json!({"panic": pn.msg, "at": pn.loc, "case": case}));
        } else {
            rep.inconclusive = Some(format!("the monitor itself panicked at {}: {}", pn.loc, pn.msg));
        }
    }
    rep.extra.insert(
        "shard_wall_s".into(),
        serde_json::json!(started.elapsed().as_secs_f64()),
    );
    rep.extra.insert(
        "dump_hook".into(),
        serde_json::json!(cfg!(feature = "dump")),
    );
    let js = serde_json::to_string(&rep.to_json()).expect("report json");
    match out {
        Some(f) => std::fs::write(&f, js).expect("write report"),
        None => println!("{}", js),
    }
}
