//! Seeded workload generators (DESIGN.md 3.2): texts, values, offsets, selectors, state-aware operations.

use crate::model::*;
use crate::util::Rng;
use stam::DataValue;

pub const ALPHABET: [char; 10] = ['a', 'b', 'E', ' ', '\n', 'é', 'İ', '日', '😀', ' '];

pub fn gen_text(rng: &mut Rng, min: usize, max: usize) -> String {
    let len = rng.range(min as i64, max as i64) as usize;
    let mut s = String::new();
    // runs of whitespace and of letters make adjacency/whitespace operators interesting
    while s.chars().count() < len {
        if rng.chance(1, 6) {
            for _ in 0..rng.range(1, 3) {
                s.push(*rng.pick(&[' ', ' ', '\n']));
            }
        } else {
            s.push(*rng.pick(&ALPHABET));
        }
    }
    s.chars().take(len).collect()
}

pub fn gen_datetime(rng: &mut Rng) -> DataValue {
    let pool = [
        "2024-02-29T23:59:59+00:00",
        "1999-12-31T00:00:00-11:30",
        "2038-01-19T03:14:08+14:00",
        "2022-06-01T12:00:00.250+02:00",
    ];
    DataValue::Datetime(chrono::DateTime::parse_from_rfc3339(*rng.pick(&pool[..])).expect("datetime"))
}

pub fn gen_string_value(rng: &mut Rng, hostile: bool) -> String {
    let plain = ["x", "y", "5", "true", "noun", "", "a b"];
    let nasty = ["é 日😀", "say \"hi\"", "back\\slash", "line\nbreak\ttab", "\u{1}\u{7f}", "{\"k\": [1]}", "null", "-0", "İ", "a;b|c"];
    if hostile && rng.chance(1, 2) {
        rng.pick(&nasty).to_string()
    } else {
        rng.pick(&plain).to_string()
    }
}

pub fn gen_value(rng: &mut Rng, depth: usize, hostile: bool) -> DataValue {
    match rng.below(if depth == 0 { 12 } else { 9 }) {
        0 => DataValue::Null,
        1 => DataValue::Bool(rng.chance(1, 2)),
        2 | 3 => DataValue::Int(*rng.pick(&[-1isize, 0, 1, 5, 42, isize::MAX, isize::MIN])),
        4 => DataValue::Float(*rng.pick(&[0.5f64, -0.0, 5.0, 1e300, -2.25, 3.0e-7, 1e-10, f64::MIN_POSITIVE, 0.1 + 0.2, 16777217.0])),
        5 | 6 | 7 => DataValue::String(gen_string_value(rng, hostile)),
        8 => gen_datetime(rng),
        _ => {
            let n = rng.below(4);
            DataValue::List((0..n).map(|_| gen_value(rng, depth + 1, hostile)).collect())
        }
    }
}

/// express the absolute range (b,e) of a text of length `len` in one of the four cursor alignments
pub fn offset_in_mode(len: usize, b: usize, e: usize, mode: usize) -> Off {
    let ea = |x: usize| Cur::E(x as isize - len as isize);
    match mode % 4 {
        0 => Off { begin: Cur::B(b), end: Cur::B(e) },
        1 => Off { begin: Cur::B(b), end: ea(e) },
        2 => Off { begin: ea(b), end: Cur::B(e) },
        _ => Off { begin: ea(b), end: ea(e) },
    }
}

pub fn gen_range(rng: &mut Rng, len: usize) -> (usize, usize) {
    match rng.below(10) {
        0 => (0, len),                         // whole
        1 => { let p = rng.below(len + 1); (p, p) } // zero-width
        2 => (rng.below(len + 1), len),        // touching the end
        3 => (0, rng.below(len + 1)),          // touching the begin
        _ => {
            let b = rng.below(len + 1);
            let e = b + rng.below(len - b + 1);
            (b, e)
        }
    }
}

#[derive(Clone, Debug)]
pub struct GenCfg {
    pub max_res: usize,
    pub max_sets: usize,
    pub max_keys: usize,
    pub max_anns: usize,
    pub text_min: usize,
    pub text_max: usize,
    pub hostile_ids: bool,
    pub hostile_values: bool,
    pub allow_semicolon: bool,
    pub removals: bool,
    pub protect: bool,
    pub by_handle: bool,
    pub idless_rate: (u64, u64),
    pub modes: bool,
    pub complex: bool,
    pub metadata_selectors: bool,
    /// multiplier for the weight of removal operations
    pub rm_boost: u32,
    /// also remove through DELETE queries
    pub query_delete: bool,
    /// DataKeySelector / AnnotationDataSelector as members of complex selectors
    pub keydata_in_complex: bool,
    /// refer to existing items by their temporary id (`!A3`) now and then
    pub by_temp_id: bool,
}

impl Default for GenCfg {
    fn default() -> Self {
        GenCfg {
            max_res: 3,
            max_sets: 2,
            max_keys: 4,
            max_anns: 20,
            text_min: 0,
            text_max: 24,
            hostile_ids: false,
            hostile_values: true,
            allow_semicolon: true,
            removals: true,
            protect: true,
            by_handle: true,
            idless_rate: (1, 3),
            modes: true,
            complex: true,
            metadata_selectors: true,
            rm_boost: 1,
            query_delete: false,
            keydata_in_complex: false,
            by_temp_id: true,
        }
    }
}

pub struct Gen {
    pub cfg: GenCfg,
    pub counter: usize,
}

const HOSTILE_IDS: [&str; 12] = [
    "é", "日本", "😀x", "a b", "q\"uote", "back\\slash", "tab\there", "http://ex.org/a#b?c=d&e", "A", "UPPER", "x.y-z_0", "ünï/cödé",
];

impl Gen {
    pub fn new(cfg: GenCfg) -> Self {
        Gen { cfg, counter: 0 }
    }

    pub fn fresh_id(&mut self, rng: &mut Rng, prefix: &str) -> String {
        self.counter += 1;
        if self.cfg.hostile_ids && rng.chance(1, 2) {
            let mut s = format!("{}{}{}", prefix, rng.pick(&HOSTILE_IDS), self.counter);
            if self.cfg.allow_semicolon && rng.chance(1, 6) {
                s.push(';');
            }
            s
        } else {
            format!("{}{}", prefix, self.counter)
        }
    }

    fn temp(&self, rng: &mut Rng, letter: char, h: usize) -> Option<Ref> {
        if self.cfg.by_temp_id && rng.chance(1, 8) {
            Some(Ref::Id(format!("!{}{}", letter, h)))
        } else {
            None
        }
    }
    fn r_res(&self, rng: &mut Rng, m: &Model, h: usize) -> Ref {
        if let Some(t) = self.temp(rng, 'R', h) {
            return t;
        }
        if self.cfg.by_handle && rng.chance(1, 3) {
            Ref::Handle(h)
        } else {
            Ref::Id(m.resources[&h].id.clone())
        }
    }
    fn r_set(&self, rng: &mut Rng, m: &Model, h: usize) -> Ref {
        if let Some(t) = self.temp(rng, 'S', h) {
            return t;
        }
        if self.cfg.by_handle && rng.chance(1, 3) {
            Ref::Handle(h)
        } else {
            Ref::Id(m.sets[&h].id.clone())
        }
    }
    pub fn r_ann(&self, rng: &mut Rng, m: &Model, h: usize) -> Ref {
        if let Some(t) = self.temp(rng, 'A', h) {
            return t;
        }
        match &m.anns[&h].id {
            Some(id) if !(self.cfg.by_handle && rng.chance(1, 3)) => Ref::Id(id.clone()),
            _ => Ref::Handle(h),
        }
    }
    fn r_key(&self, rng: &mut Rng, m: &Model, s: usize, k: usize) -> Ref {
        if let Some(t) = self.temp(rng, 'K', k) {
            return t;
        }
        if self.cfg.by_handle && rng.chance(1, 3) {
            Ref::Handle(k)
        } else {
            Ref::Id(m.sets[&s].keys[&k].id.clone())
        }
    }
    fn r_data(&self, rng: &mut Rng, m: &Model, s: usize, d: usize) -> Ref {
        if let Some(t) = self.temp(rng, 'D', d) {
            return t;
        }
        match &m.sets[&s].data[&d].id {
            Some(id) if !(self.cfg.by_handle && rng.chance(1, 3)) => Ref::Id(id.clone()),
            _ => Ref::Handle(d),
        }
    }

    fn pick_key<T: Copy>(rng: &mut Rng, keys: impl Iterator<Item = T>) -> Option<T> {
        let v: Vec<T> = keys.collect();
        if v.is_empty() {
            None
        } else {
            Some(v[rng.below(v.len())])
        }
    }

    pub fn gen_text_sel(&self, rng: &mut Rng, m: &Model) -> Option<SelReq> {
        let res = Self::pick_key(rng, m.resources.keys().copied())?;
        let r = &m.resources[&res];
        let len = r.text.len();
        let (b, e) = if !r.known.is_empty() && rng.chance(1, 4) {
            *rng.pick(&r.known)
        } else {
            gen_range(rng, len)
        };
        let mode = if self.cfg.modes && rng.chance(1, 3) { rng.below(4) } else { 0 };
        Some(SelReq::Text(self.r_res(rng, m, res), offset_in_mode(len, b, e, mode)))
    }

    pub fn gen_ann_sel(&self, rng: &mut Rng, m: &Model, with_offset: Option<bool>) -> Option<SelReq> {
        let with_offset = with_offset.unwrap_or_else(|| rng.chance(1, 2));
        if with_offset {
            let cands: Vec<usize> = m.anns.keys().copied().filter(|a| m.parent_range(*a).is_some()).collect();
            if cands.is_empty() {
                return None;
            }
            let a = *rng.pick(&cands);
            let (_, pb, pe) = m.parent_range(a).unwrap();
            let len = pe - pb;
            let (b, e) = gen_range(rng, len);
            let mode = if self.cfg.modes && rng.chance(1, 3) { rng.below(4) } else { 0 };
            Some(SelReq::Ann(self.r_ann(rng, m, a), Some(offset_in_mode(len, b, e, mode))))
        } else {
            let a = Self::pick_key(rng, m.anns.keys().copied())?;
            Some(SelReq::Ann(self.r_ann(rng, m, a), None))
        }
    }

    pub fn gen_simple_sel(&self, rng: &mut Rng, m: &Model, in_complex: bool) -> Option<SelReq> {
        for _ in 0..8 {
            let kind = rng.pick_weighted(&[40, 12, 12, 8, 6, if in_complex { if self.cfg.keydata_in_complex { 3 } else { 0 } } else { 6 }, if in_complex { if self.cfg.keydata_in_complex { 3 } else { 0 } } else { 6 }]);
            let s = match kind {
                0 => self.gen_text_sel(rng, m),
                1 => self.gen_ann_sel(rng, m, Some(false)),
                2 => self.gen_ann_sel(rng, m, Some(true)),
                3 => Self::pick_key(rng, m.resources.keys().copied()).map(|r| SelReq::Res(self.r_res(rng, m, r))),
                4 => Self::pick_key(rng, m.sets.keys().copied()).map(|s| SelReq::Set(self.r_set(rng, m, s))),
                5 => {
                    let cands: Vec<(usize, usize)> = m.sets.values().flat_map(|s| s.keys.keys().map(move |k| (s.handle, *k))).collect();
                    if cands.is_empty() {
                        None
                    } else {
                        let (s, k) = *rng.pick(&cands);
                        Some(SelReq::Key(self.r_set(rng, m, s), self.r_key(rng, m, s, k)))
                    }
                }
                _ => {
                    let cands: Vec<(usize, usize)> = m.sets.values().flat_map(|s| s.data.keys().map(move |d| (s.handle, *d))).collect();
                    if cands.is_empty() {
                        None
                    } else {
                        let (s, d) = *rng.pick(&cands);
                        Some(SelReq::Data(self.r_set(rng, m, s), self.r_data(rng, m, s, d)))
                    }
                }
            };
            if !self.cfg.metadata_selectors {
                if let Some(SelReq::Res(_) | SelReq::Set(_) | SelReq::Key(..) | SelReq::Data(..)) = s {
                    continue;
                }
            }
            if s.is_some() {
                return s;
            }
        }
        None
    }

    pub fn gen_complex_sel(&self, rng: &mut Rng, m: &Model) -> Option<SelReq> {
        let mut subs: Vec<SelReq> = Vec::new();
        match rng.below(4) {
            0 => {
                // consecutive fresh text selections on one resource: triggers RangedTextSelector compression
                let res = Self::pick_key(rng, m.resources.keys().copied())?;
                let r = &m.resources[&res];
                let len = r.text.len();
                let n = rng.range(2, 5) as usize;
                let mut pos = rng.below(len + 1);
                for _ in 0..n {
                    let e = (pos + rng.range(1, 3) as usize).min(len);
                    if r.known.contains(&(pos, e)) || subs.iter().any(|s| matches!(s, SelReq::Text(_, o) if *o == Off::simple(pos, e))) {
                        break;
                    }
                    subs.push(SelReq::Text(self.r_res(rng, m, res), Off::simple(pos, e)));
                    if e >= len {
                        break;
                    }
                    pos = e + rng.below(2);
                }
            }
            1 => {
                // consecutive annotations: triggers RangedAnnotationSelector compression
                let hs: Vec<usize> = m.anns.keys().copied().collect();
                if hs.len() >= 2 {
                    let start = rng.below(hs.len() - 1);
                    let n = rng.range(2, 4) as usize;
                    let with_text = rng.chance(1, 2);
                    // 0: every member whole (compression expected); 1: whole members with one almost-whole neighbour
                    // (must not be merged); 2: anything
                    let pattern = rng.below(3);
                    let odd_one = rng.below(n);
                    for (i, h) in hs.iter().skip(start).take(n).enumerate() {
                        if with_text {
                            if let Some((_, pb, pe)) = m.parent_range(*h) {
                                // whole-text offsets are what range compression looks for; almost-whole neighbours must not be merged
                                let len = pe - pb;
                                let whole = pattern == 0 || (pattern == 1 && i != odd_one);
                                // the odd one out (pattern 1) is whole but for ONE cursor: every such shape, so that each test of the merge is exercised
                                let (begin, end) = if pattern == 1 && !whole && len >= 2 {
                                    match rng.below(6) {
                                        0 => (Cur::B(1), Cur::E(0)),
                                        1 => (Cur::B(1), Cur::B(len)),
                                        2 => (Cur::B(0), Cur::E(-1)),
                                        3 => (Cur::B(0), Cur::B(len - 1)),
                                        4 => (Cur::E(-(len as isize)), Cur::E(0)), // whole, written with an end-aligned begin
                                        _ => (Cur::B(0), Cur::B(len)),              // whole, written with a begin-aligned end
                                    }
                                } else {
                                    let begin = if !whole && len >= 2 && rng.chance(1, 6) { Cur::B(1) } else { Cur::B(0) };
                                    let end = match if whole { 0 } else { rng.below(6) } {
                                        0 | 1 => Cur::E(0),
                                        2 | 3 => Cur::B(len),
                                        4 if len >= 2 => Cur::E(-1),
                                        _ if len >= 2 => Cur::B(len - 1),
                                        _ => Cur::E(0),
                                    };
                                    (begin, end)
                                };
                                subs.push(SelReq::Ann(self.r_ann(rng, m, *h), Some(Off { begin, end })));
                                continue;
                            }
                        }
                        subs.push(SelReq::Ann(self.r_ann(rng, m, *h), None));
                    }
                }
            }
            _ => {}
        }
        if subs.is_empty() {
            let n = rng.range(1, 5) as usize;
            for _ in 0..n {
                if let Some(s) = self.gen_simple_sel(rng, m, true) {
                    if !subs.contains(&s) {
                        subs.push(s);
                    }
                }
            }
        }
        if subs.is_empty() {
            return None;
        }
        // never the same target twice in one complex selector (row 25 of DESIGN 2.2 is judged separately)
        let mut seen: Vec<String> = Vec::new();
        let mut scratch = m.clone();
        subs.retain(|s| {
            let probe = Op::Annotate(AnnReq { id: None, target: Some(s.clone()), data: vec![] });
            let before = scratch.next_ann;
            let (_p, _) = scratch.apply(&probe);
            let key = scratch
                .anns
                .get(&before)
                .map(|a| match (a.target.textselections().first(), a.target.target_annotations().first()) {
                    // the same text selection or the same annotation reached through two different selectors counts as "twice" too
                    (Some(t), Some(x)) => format!("T{:?}|A{}", t, x),
                    (Some(t), None) => format!("T{:?}", t),
                    (None, Some(x)) => format!("A{}", x),
                    _ => format!("{:?}", a.target),
                })
                .unwrap_or_default();
            let parts: Vec<String> = key.split('|').map(|x| x.to_string()).collect();
            if !key.is_empty() && parts.len() == 2 && (seen.contains(&parts[0]) || seen.contains(&parts[1])) {
                return false;
            }
            if parts.len() == 2 {
                seen.push(parts[0].clone());
                seen.push(parts[1].clone());
            }
            scratch.anns.remove(&before);
            scratch.next_ann = before;
            if key.is_empty() || seen.contains(&key) {
                false
            } else {
                seen.push(key);
                true
            }
        });
        if subs.is_empty() {
            return None;
        }
        if rng.chance(1, 2) {
            rng.shuffle(&mut subs);
        }
        Some(match rng.below(3) {
            0 => SelReq::Multi(subs),
            1 => SelReq::Composite(subs),
            _ => SelReq::Directional(subs),
        })
    }

    pub fn gen_data_req(&mut self, rng: &mut Rng, m: &Model) -> DataReq {
        // dataset: mostly existing, sometimes a new one by id
        let (set_ref, set) = if m.sets.is_empty() || (m.sets.len() < self.cfg.max_sets && rng.chance(1, 8)) {
            (Ref::Id(self.fresh_id(rng, "s")), None)
        } else {
            let cands: Vec<usize> = m.sets.values().filter(|s| s.id != TEXTVALIDATION_SET).map(|s| s.handle).collect();
            if cands.is_empty() {
                (Ref::Id(self.fresh_id(rng, "s")), None)
            } else {
                let s = *rng.pick(&cands);
                (self.r_set(rng, m, s), Some(s))
            }
        };
        if let Some(s) = set {
            let st = &m.sets[&s];
            // reuse an existing item by reference
            if !st.data.is_empty() && rng.chance(1, 5) {
                let d = *rng.pick(&st.data.keys().copied().collect::<Vec<_>>());
                if st.data[&d].id.is_some() || self.cfg.by_handle {
                    return DataReq { set: set_ref, id: self.r_data(rng, m, s, d), key: Ref::None, value: DataValue::Null };
                }
            }
            // same (key,value) as an existing id-less item: must deduplicate
            if !st.data.is_empty() && rng.chance(1, 3) {
                let d = *rng.pick(&st.data.keys().copied().collect::<Vec<_>>());
                let item = &st.data[&d];
                return DataReq { set: set_ref, id: Ref::None, key: self.r_key(rng, m, s, item.key), value: item.value.clone() };
            }
            let key = if !st.keys.is_empty() && (st.keys.len() >= self.cfg.max_keys || rng.chance(3, 4)) {
                let k = *rng.pick(&st.keys.keys().copied().collect::<Vec<_>>());
                self.r_key(rng, m, s, k)
            } else {
                Ref::Id(self.fresh_id(rng, "k"))
            };
            let id = if rng.chance(1, 4) { Ref::Id(self.fresh_id(rng, "d")) } else { Ref::None };
            DataReq { set: set_ref, id, key, value: gen_value(rng, 0, self.cfg.hostile_values) }
        } else {
            let id = if rng.chance(1, 4) { Ref::Id(self.fresh_id(rng, "d")) } else { Ref::None };
            DataReq { set: set_ref, id, key: Ref::Id(self.fresh_id(rng, "k")), value: gen_value(rng, 0, self.cfg.hostile_values) }
        }
    }

    pub fn gen_annotate(&mut self, rng: &mut Rng, m: &Model) -> Option<Op> {
        let target = if self.cfg.complex && rng.chance(1, 4) {
            self.gen_complex_sel(rng, m).or_else(|| self.gen_simple_sel(rng, m, false))
        } else {
            self.gen_simple_sel(rng, m, false)
        }?;
        let n = rng.pick_weighted(&[10, 55, 25, 10]);
        let mut data = Vec::new();
        let mut resolved: Vec<(usize, usize)> = Vec::new();
        let mut scratch = m.clone();
        for _ in 0..n {
            let d = self.gen_data_req(rng, &scratch);
            // keep the scratch model in step so that later items may refer to sets/keys created by earlier ones
            let (p, _) = scratch.apply(&Op::InsertData(d.clone()));
            if let Pred::Ok(Some(dh)) = p {
                // never the same data item twice in one annotation (DESIGN 2.2 row 25 is judged separately)
                let set = scratch.set(&d.set).unwrap_or(usize::MAX);
                if !resolved.contains(&(set, dh)) {
                    resolved.push((set, dh));
                    data.push(d);
                }
            }
        }
        let id = if rng.chance(self.cfg.idless_rate.0, self.cfg.idless_rate.1) { None } else { Some(self.fresh_id(rng, "a")) };
        Some(Op::Annotate(AnnReq { id, target: Some(target), data }))
    }

    /// a valid, unambiguous operation chosen with state-aware weights
    pub fn gen_op(&mut self, rng: &mut Rng, m: &Model) -> Op {
        for _ in 0..20 {
            let nres = m.resources.len();
            let nann = m.anns.len();
            let nsets = m.sets.len();
            let rm = if self.cfg.removals { self.cfg.rm_boost } else { 0 };
            let weights = [
                if nres < self.cfg.max_res { if nres == 0 { 60 } else { 6 } } else { 0 }, // add_resource
                if nsets < self.cfg.max_sets { if nsets == 0 { 20 } else { 4 } } else { 0 }, // add_dataset
                if nres > 0 && nann < self.cfg.max_anns { 50 } else { 0 },               // annotate
                if nsets > 0 { 5 } else { 0 },                                           // insert_data
                if nann > 0 { 7 * rm } else { 0 },                                       // remove_annotation
                if nsets > 0 { 7 * rm } else { 0 },                                      // remove_data
                if nsets > 0 { 4 * rm } else { 0 },                                      // remove_key
                if nres > 0 { 3 * rm } else { 0 },                                       // remove_resource
                if nsets > 0 { 2 * rm } else { 0 },                                      // remove_dataset
                if nann > 0 && self.cfg.protect && !m.text_order_unsettled() { 2 } else { 0 }, // protect_text
                if self.cfg.query_delete && (nann > 0 || nres > 0) { 5 * rm } else { 0 },    // DELETE query
            ];
            let op = match rng.pick_weighted(&weights) {
                0 => {
                    let id = self.fresh_id(rng, "r");
                    Some(Op::AddResource { id, text: gen_text(rng, self.cfg.text_min, self.cfg.text_max) })
                }
                1 => {
                    let id = self.fresh_id(rng, "s");
                    let nkeys = rng.range(0, 3) as usize;
                    let keys: Vec<String> = (0..nkeys).map(|_| self.fresh_id(rng, "k")).collect();
                    let mut items = Vec::new();
                    if !keys.is_empty() {
                        for _ in 0..rng.range(1, 5) {
                            let k = rng.pick(&keys).clone();
                            let did = if rng.chance(1, 3) { Some(self.fresh_id(rng, "d")) } else { None };
                            items.push((k, gen_value(rng, 0, self.cfg.hostile_values), did));
                        }
                    }
                    Some(Op::AddDataset { id, items })
                }
                2 => self.gen_annotate(rng, m),
                3 => Some(Op::InsertData(self.gen_data_req(rng, m))),
                4 => {
                    // prefer annotations that others point at (cascades, diamonds)
                    let targeted: Vec<usize> = m.anns.keys().copied().filter(|h| m.anns.values().any(|x| x.target.target_annotations().contains(h))).collect();
                    let h = if !targeted.is_empty() && rng.chance(2, 3) { *rng.pick(&targeted) } else { *rng.pick(&m.anns.keys().copied().collect::<Vec<_>>()) };
                    Some(Op::RemoveAnnotation(self.r_ann(rng, m, h)))
                }
                5 => {
                    let cands: Vec<(usize, usize)> = m.sets.values().filter(|s| s.id != TEXTVALIDATION_SET).flat_map(|s| s.data.keys().map(move |d| (s.handle, *d))).collect();
                    if cands.is_empty() {
                        None
                    } else {
                        // prefer data that is shared by several annotations
                        let shared: Vec<(usize, usize)> = cands.iter().copied().filter(|p| m.anns.values().filter(|a| a.data.contains(p)).count() >= 2).collect();
                        let (s, d) = if !shared.is_empty() && rng.chance(1, 2) { *rng.pick(&shared) } else { *rng.pick(&cands) };
                        Some(Op::RemoveData { set: self.r_set(rng, m, s), data: self.r_data(rng, m, s, d), strict: rng.chance(1, 2) })
                    }
                }
                6 => {
                    let cands: Vec<(usize, usize)> = m.sets.values().filter(|s| s.id != TEXTVALIDATION_SET).flat_map(|s| s.keys.keys().map(move |k| (s.handle, *k))).collect();
                    if cands.is_empty() {
                        None
                    } else {
                        // prefer keys that are not the last one of their set
                        let notlast: Vec<(usize, usize)> = cands.iter().copied().filter(|(s, k)| m.sets[s].keys.keys().any(|o| o > k)).collect();
                        let (s, k) = if !notlast.is_empty() && rng.chance(2, 3) { *rng.pick(&notlast) } else { *rng.pick(&cands) };
                        Some(Op::RemoveKey { set: self.r_set(rng, m, s), key: self.r_key(rng, m, s, k), strict: rng.chance(1, 2) })
                    }
                }
                7 => {
                    let h = *rng.pick(&m.resources.keys().copied().collect::<Vec<_>>());
                    Some(Op::RemoveResource(self.r_res(rng, m, h)))
                }
                8 => {
                    let cands: Vec<usize> = m.sets.values().filter(|s| s.id != TEXTVALIDATION_SET).map(|s| s.handle).collect();
                    if cands.is_empty() {
                        None
                    } else {
                        let h = *rng.pick(&cands);
                        Some(Op::RemoveDataset(self.r_set(rng, m, h)))
                    }
                }
                9 => Some(Op::ProtectText(*rng.pick(&[PMode::Checksum, PMode::Text, PMode::Both, PMode::Auto]))),
                _ => {
                    let plain = |s: &str| !s.is_empty() && s.chars().all(|c| c.is_ascii_alphanumeric());
                    let mut cands: Vec<(char, String)> = Vec::new();
                    cands.extend(m.anns.values().filter_map(|a| a.id.clone()).filter(|i| plain(i)).map(|i| ('A', i)));
                    cands.extend(m.resources.values().map(|r| r.id.clone()).filter(|i| plain(i)).map(|i| ('R', i)));
                    cands.extend(m.sets.values().map(|r| r.id.clone()).filter(|i| plain(i)).map(|i| ('S', i)));
                    if cands.is_empty() {
                        None
                    } else {
                        let (k, id) = rng.pick(&cands).clone();
                        Some(Op::QueryDelete(k, id))
                    }
                }
            };
            if let Some(op) = op {
                // only hand out operations whose outcome the documentation settles
                let mut scratch = m.clone();
                if let (Pred::Ok(_), _) = scratch.apply(&op) {
                    return op;
                }
            }
        }
        let id = self.fresh_id(rng, "r");
        Op::AddResource { id, text: gen_text(rng, self.cfg.text_min, self.cfg.text_max) }
    }
}
