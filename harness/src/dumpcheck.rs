//! Self-consistency checker over the hooked read-only state dump (`AnnotationStore::verif_dump`).
//! Every reverse map must equal the map recomputed from the forward references found in the same dump:
//! no stale handle, no missing pair, no duplicate, inner vectors ascending; id maps must be exact inverses
//! of the ids carried by live items; the position index must be exactly what the text-selection store implies.

use serde_json::{json, Value};
use std::collections::{BTreeMap, BTreeSet};

pub type Finding = (String, Value);

fn u(v: &Value) -> usize {
    v.as_u64().unwrap_or(u64::MAX) as usize
}

struct Fwd {
    // (a, s, d)
    data: Vec<(usize, usize, usize)>,
    text: Vec<(usize, usize, usize)>,   // (a, r, t)
    ann: Vec<(usize, usize)>,           // (a, target annotation)
    res: Vec<(usize, usize)>,
    set: Vec<(usize, usize)>,
    key: Vec<(usize, usize, usize)>,
    dat: Vec<(usize, usize, usize)>,
}

fn own_textsel(annotations: &[Value], a: usize) -> Option<(usize, usize)> {
    let t = annotations.get(a)?.get("target")?;
    match t["k"].as_str()? {
        "Text" => Some((u(&t["r"]), u(&t["t"]))),
        "Annotation" if t.get("t").is_some() => Some((u(&t["r"]), u(&t["t"]))),
        _ => None,
    }
}

fn walk(sel: &Value, a: usize, annotations: &[Value], f: &mut Fwd, out: &mut Vec<Finding>, depth: usize) {
    match sel["k"].as_str().unwrap_or("") {
        "Text" => f.text.push((a, u(&sel["r"]), u(&sel["t"]))),
        "Annotation" => {
            f.ann.push((a, u(&sel["a"])));
            if sel.get("t").is_some() {
                f.text.push((a, u(&sel["r"]), u(&sel["t"])));
            }
        }
        "Resource" => f.res.push((a, u(&sel["r"]))),
        "DataSet" => f.set.push((a, u(&sel["s"]))),
        "DataKey" => f.key.push((a, u(&sel["s"]), u(&sel["key"]))),
        "AnnotationData" => f.dat.push((a, u(&sel["s"]), u(&sel["d"]))),
        "Multi" | "Composite" | "Directional" => {
            if depth > 0 {
                out.push(("selector/nested-complex".into(), json!({"annotation": a})));
            }
            for s in sel["sub"].as_array().cloned().unwrap_or_default() {
                walk(&s, a, annotations, f, out, depth + 1);
            }
        }
        "RangedText" => {
            if depth == 0 {
                out.push(("selector/ranged-at-top-level".into(), json!({"annotation": a})));
            }
            for t in u(&sel["begin"])..=u(&sel["end"]) {
                f.text.push((a, u(&sel["r"]), t));
            }
        }
        "RangedAnnotation" => {
            if depth == 0 {
                out.push(("selector/ranged-at-top-level".into(), json!({"annotation": a})));
            }
            for t in u(&sel["begin"])..=u(&sel["end"]) {
                f.ann.push((a, t));
                if sel["with_text"].as_bool() == Some(true) {
                    if let Some((r, ts)) = own_textsel(annotations, t) {
                        f.text.push((a, r, ts));
                    }
                }
            }
        }
        other => out.push((format!("selector/unknown-kind/{}", other), json!({"annotation": a}))),
    }
}

fn cmp_vec(name: &str, key: String, got: &[usize], want: &BTreeSet<usize>, out: &mut Vec<Finding>) {
    let gotset: BTreeSet<usize> = got.iter().copied().collect();
    if gotset.len() != got.len() {
        out.push((format!("{}/duplicate", name), json!({"key": key, "stored": got})));
    }
    if !got.windows(2).all(|w| w[0] <= w[1]) {
        out.push((format!("{}/unsorted", name), json!({"key": key, "stored": got})));
    }
    let stale: Vec<usize> = gotset.difference(want).copied().collect();
    let missing: Vec<usize> = want.difference(&gotset).copied().collect();
    if !stale.is_empty() {
        out.push((format!("{}/stale", name), json!({"key": key, "stale": stale, "stored": got, "expected": want})));
    }
    if !missing.is_empty() {
        out.push((format!("{}/missing", name), json!({"key": key, "missing": missing, "stored": got, "expected": want})));
    }
}

fn check_relmap(name: &str, map: &Value, want: &BTreeMap<usize, BTreeSet<usize>>, out: &mut Vec<Finding>) {
    let empty = BTreeSet::new();
    let arr = map.as_array().cloned().unwrap_or_default();
    for (i, v) in arr.iter().enumerate() {
        let got: Vec<usize> = v.as_array().map(|x| x.iter().map(u).collect()).unwrap_or_default();
        cmp_vec(name, format!("{}", i), &got, want.get(&i).unwrap_or(&empty), out);
    }
    for (k, w) in want {
        if *k >= arr.len() && !w.is_empty() {
            out.push((format!("{}/missing", name), json!({"key": k, "missing": w, "stored": []})));
        }
    }
}

fn check_triplemap(name: &str, map: &Value, want: &BTreeMap<(usize, usize), BTreeSet<usize>>, out: &mut Vec<Finding>) {
    let empty = BTreeSet::new();
    let arr = map.as_array().cloned().unwrap_or_default();
    let mut seen: BTreeSet<(usize, usize)> = BTreeSet::new();
    for (i, inner) in arr.iter().enumerate() {
        for (j, v) in inner.as_array().cloned().unwrap_or_default().iter().enumerate() {
            let got: Vec<usize> = v.as_array().map(|x| x.iter().map(u).collect()).unwrap_or_default();
            seen.insert((i, j));
            cmp_vec(name, format!("{}/{}", i, j), &got, want.get(&(i, j)).unwrap_or(&empty), out);
        }
    }
    for (k, w) in want {
        if !seen.contains(k) && !w.is_empty() {
            out.push((format!("{}/missing", name), json!({"key": format!("{}/{}", k.0, k.1), "missing": w, "stored": []})));
        }
    }
}

fn check_idmap(name: &str, map: &Value, want: &BTreeMap<String, usize>, out: &mut Vec<Finding>) {
    let mut got: BTreeMap<String, usize> = BTreeMap::new();
    for e in map["entries"].as_array().cloned().unwrap_or_default() {
        got.insert(e[0].as_str().unwrap_or("").to_string(), u(&e[1]));
    }
    for (id, h) in &got {
        match want.get(id) {
            None => out.push((format!("{}/stale", name), json!({"id": id, "handle": h}))),
            Some(w) if w != h => out.push((format!("{}/wrong-handle", name), json!({"id": id, "stored": h, "expected": w}))),
            _ => {}
        }
    }
    for (id, h) in want {
        if !got.contains_key(id) {
            out.push((format!("{}/missing", name), json!({"id": id, "handle": h})));
        }
    }
}

fn live_ids(items: &[Value], idfield: impl Fn(&Value) -> Option<(String, usize)>, name: &str, out: &mut Vec<Finding>) -> BTreeMap<String, usize> {
    let mut m = BTreeMap::new();
    for it in items {
        if it.is_null() {
            continue;
        }
        if let Some((id, h)) = idfield(it) {
            if m.insert(id.clone(), h).is_some() {
                out.push((format!("{}/two-live-items-with-one-id", name), json!({"id": id})));
            }
        }
    }
    m
}

/// Returns the list of inconsistencies found in the dump; `totals` is `store.index_totalcount()`
pub fn check(dump: &Value, totals: Option<(usize, usize, usize, usize, usize, usize, usize, usize)>) -> Vec<Finding> {
    let mut out: Vec<Finding> = Vec::new();
    let annotations = dump["annotations"].as_array().cloned().unwrap_or_default();
    let resources = dump["resources"].as_array().cloned().unwrap_or_default();
    let datasets = dump["datasets"].as_array().cloned().unwrap_or_default();

    // stores: handle == index
    for (i, a) in annotations.iter().enumerate() {
        if !a.is_null() && u(&a["handle"]) != i {
            out.push(("annotations/handle-not-index".into(), json!({"index": i, "handle": a["handle"]})));
        }
    }
    for (i, r) in resources.iter().enumerate() {
        if !r.is_null() && u(&r["handle"]) != i {
            out.push(("resources/handle-not-index".into(), json!({"index": i, "handle": r["handle"]})));
        }
    }
    for (i, s) in datasets.iter().enumerate() {
        if !s.is_null() && u(&s["handle"]) != i {
            out.push(("datasets/handle-not-index".into(), json!({"index": i, "handle": s["handle"]})));
        }
    }

    // forward references
    let mut f = Fwd { data: vec![], text: vec![], ann: vec![], res: vec![], set: vec![], key: vec![], dat: vec![] };
    for (i, a) in annotations.iter().enumerate() {
        if a.is_null() {
            continue;
        }
        for p in a["data"].as_array().cloned().unwrap_or_default() {
            f.data.push((i, u(&p[0]), u(&p[1])));
        }
        walk(&a["target"], i, &annotations, &mut f, &mut out, 0);
    }

    // dangling forward references
    let live_ann = |h: usize| annotations.get(h).map(|x| !x.is_null()).unwrap_or(false);
    let live_res = |h: usize| resources.get(h).map(|x| !x.is_null()).unwrap_or(false);
    let live_set = |h: usize| datasets.get(h).map(|x| !x.is_null()).unwrap_or(false);
    let live_in = |s: usize, field: &str, h: usize| -> bool {
        datasets
            .get(s)
            .and_then(|x| x.get(field))
            .and_then(|x| x.as_array())
            .and_then(|x| x.get(h))
            .map(|x| !x.is_null())
            .unwrap_or(false)
    };
    let live_ts = |r: usize, t: usize| -> bool {
        resources
            .get(r)
            .and_then(|x| x.get("textselections"))
            .and_then(|x| x.as_array())
            .and_then(|x| x.get(t))
            .map(|x| !x.is_null())
            .unwrap_or(false)
    };
    for (a, s, d) in &f.data {
        if !live_set(*s) || !live_in(*s, "data", *d) {
            out.push(("forward/dangling-data".into(), json!({"annotation": a, "set": s, "data": d})));
        }
    }
    for (a, r, t) in &f.text {
        if !live_res(*r) || !live_ts(*r, *t) {
            out.push(("forward/dangling-textselection".into(), json!({"annotation": a, "resource": r, "textselection": t})));
        }
    }
    for (a, t) in &f.ann {
        if !live_ann(*t) {
            out.push(("forward/dangling-annotation".into(), json!({"annotation": a, "target": t})));
        }
    }
    for (a, r) in &f.res {
        if !live_res(*r) {
            out.push(("forward/dangling-resource".into(), json!({"annotation": a, "resource": r})));
        }
    }
    for (a, s) in &f.set {
        if !live_set(*s) {
            out.push(("forward/dangling-dataset".into(), json!({"annotation": a, "set": s})));
        }
    }
    for (a, s, k) in &f.key {
        if !live_set(*s) || !live_in(*s, "keys", *k) {
            out.push(("forward/dangling-key".into(), json!({"annotation": a, "set": s, "key": k})));
        }
    }
    for (a, s, d) in &f.dat {
        if !live_set(*s) || !live_in(*s, "data", *d) {
            out.push(("forward/dangling-data-target".into(), json!({"annotation": a, "set": s, "data": d})));
        }
    }

    // reverse maps recomputed
    let mut m_data: BTreeMap<(usize, usize), BTreeSet<usize>> = BTreeMap::new();
    for (a, s, d) in &f.data {
        m_data.entry((*s, *d)).or_default().insert(*a);
    }
    check_triplemap("dataset_data_annotation_map", &dump["dataset_data_annotation_map"], &m_data, &mut out);
    let mut m_text: BTreeMap<(usize, usize), BTreeSet<usize>> = BTreeMap::new();
    for (a, r, t) in &f.text {
        m_text.entry((*r, *t)).or_default().insert(*a);
    }
    check_triplemap("textrelationmap", &dump["textrelationmap"], &m_text, &mut out);
    let mut m_res: BTreeMap<usize, BTreeSet<usize>> = BTreeMap::new();
    for (a, r) in &f.res {
        m_res.entry(*r).or_default().insert(*a);
    }
    check_relmap("resource_annotation_metamap", &dump["resource_annotation_metamap"], &m_res, &mut out);
    let mut m_set: BTreeMap<usize, BTreeSet<usize>> = BTreeMap::new();
    for (a, s) in &f.set {
        m_set.entry(*s).or_default().insert(*a);
    }
    check_relmap("dataset_annotation_metamap", &dump["dataset_annotation_metamap"], &m_set, &mut out);
    let mut m_key: BTreeMap<(usize, usize), BTreeSet<usize>> = BTreeMap::new();
    for (a, s, k) in &f.key {
        m_key.entry((*s, *k)).or_default().insert(*a);
    }
    check_triplemap("key_annotation_metamap", &dump["key_annotation_metamap"], &m_key, &mut out);
    let mut m_dat: BTreeMap<(usize, usize), BTreeSet<usize>> = BTreeMap::new();
    for (a, s, d) in &f.dat {
        m_dat.entry((*s, *d)).or_default().insert(*a);
    }
    check_triplemap("data_annotation_metamap", &dump["data_annotation_metamap"], &m_dat, &mut out);
    // annotation_annotation_map is a BTreeMap dump: [[a, [b..]]..]
    let mut m_ann: BTreeMap<usize, BTreeSet<usize>> = BTreeMap::new();
    for (a, t) in &f.ann {
        m_ann.entry(*t).or_default().insert(*a);
    }
    let empty = BTreeSet::new();
    let mut seen = BTreeSet::new();
    for e in dump["annotation_annotation_map"].as_array().cloned().unwrap_or_default() {
        let k = u(&e[0]);
        seen.insert(k);
        let got: Vec<usize> = e[1].as_array().map(|x| x.iter().map(u).collect()).unwrap_or_default();
        cmp_vec("annotation_annotation_map", format!("{}", k), &got, m_ann.get(&k).unwrap_or(&empty), &mut out);
    }
    for (k, w) in &m_ann {
        if !seen.contains(k) && !w.is_empty() {
            out.push(("annotation_annotation_map/missing".into(), json!({"key": k, "missing": w})));
        }
    }

    // id maps
    let ids = live_ids(&annotations, |a| a["id"].as_str().map(|s| (s.to_string(), u(&a["handle"]))), "annotation_idmap", &mut out);
    check_idmap("annotation_idmap", &dump["annotation_idmap"], &ids, &mut out);
    let ids = live_ids(&resources, |a| a["id"].as_str().map(|s| (s.to_string(), u(&a["handle"]))), "resource_idmap", &mut out);
    check_idmap("resource_idmap", &dump["resource_idmap"], &ids, &mut out);
    let ids = live_ids(&datasets, |a| a["id"].as_str().map(|s| (s.to_string(), u(&a["handle"]))), "dataset_idmap", &mut out);
    check_idmap("dataset_idmap", &dump["dataset_idmap"], &ids, &mut out);

    // datasets
    for s in datasets.iter().filter(|s| !s.is_null()) {
        let keys = s["keys"].as_array().cloned().unwrap_or_default();
        let data = s["data"].as_array().cloned().unwrap_or_default();
        for (i, k) in keys.iter().enumerate() {
            if !k.is_null() && u(&k[0]) != i {
                out.push(("keys/handle-not-index".into(), json!({"set": s["id"], "index": i})));
            }
        }
        for (i, d) in data.iter().enumerate() {
            if !d.is_null() && u(&d[0]) != i {
                out.push(("data/handle-not-index".into(), json!({"set": s["id"], "index": i})));
            }
        }
        let ids = live_ids(&keys, |k| k[1].as_str().map(|x| (x.to_string(), u(&k[0]))), "key_idmap", &mut out);
        check_idmap("key_idmap", &s["key_idmap"], &ids, &mut out);
        let ids = live_ids(&data, |d| d[1].as_str().map(|x| (x.to_string(), u(&d[0]))), "data_idmap", &mut out);
        check_idmap("data_idmap", &s["data_idmap"], &ids, &mut out);
        let mut kd: BTreeMap<usize, BTreeSet<usize>> = BTreeMap::new();
        for d in data.iter().filter(|d| !d.is_null()) {
            let k = u(&d[2]);
            if keys.get(k).map(|x| x.is_null()).unwrap_or(true) {
                out.push(("data/dangling-key".into(), json!({"set": s["id"], "data": d[0], "key": k})));
            }
            kd.entry(k).or_default().insert(u(&d[0]));
        }
        check_relmap("key_data_map", &s["key_data_map"], &kd, &mut out);
    }

    // resources: text selection store and position index
    for r in resources.iter().filter(|r| !r.is_null()) {
        let text = r["text"].as_str().unwrap_or("");
        let chars: Vec<(usize, char)> = text.char_indices().collect();
        let textlen = chars.len();
        if u(&r["textlen"]) != textlen {
            out.push(("resource/textlen".into(), json!({"resource": r["id"], "stored": r["textlen"], "actual": textlen})));
        }
        let bytepos = |p: usize| -> usize { if p >= textlen { text.len() } else { chars[p].0 } };
        let ts = r["textselections"].as_array().cloned().unwrap_or_default();
        let mut ranges: BTreeMap<(usize, usize), usize> = BTreeMap::new();
        let mut b2e: BTreeMap<usize, BTreeSet<(usize, usize)>> = BTreeMap::new();
        let mut e2b: BTreeMap<usize, BTreeSet<(usize, usize)>> = BTreeMap::new();
        for (i, t) in ts.iter().enumerate() {
            if t.is_null() {
                continue;
            }
            let (h, b, e) = (u(&t[0]), u(&t[1]), u(&t[2]));
            if h != i {
                out.push(("textselections/handle-not-index".into(), json!({"resource": r["id"], "index": i, "handle": t[0]})));
            }
            if b > e || e > textlen {
                out.push(("textselections/invalid-range".into(), json!({"resource": r["id"], "begin": b, "end": e, "textlen": textlen})));
                continue;
            }
            if let Some(prev) = ranges.insert((b, e), h) {
                out.push(("textselections/same-range-twice".into(), json!({"resource": r["id"], "begin": b, "end": e, "handles": [prev, h]})));
            }
            b2e.entry(b).or_default().insert((e, h));
            e2b.entry(e).or_default().insert((b, h));
        }
        let interval = u(&r["milestone_interval"]);
        let mut seenpos: BTreeSet<usize> = BTreeSet::new();
        let mut lastpos: Option<usize> = None;
        for item in r["positionindex"].as_array().cloned().unwrap_or_default() {
            let pos = u(&item["pos"]);
            if let Some(l) = lastpos {
                if pos <= l {
                    out.push(("positionindex/unsorted".into(), json!({"resource": r["id"], "pos": pos})));
                }
            }
            lastpos = Some(pos);
            seenpos.insert(pos);
            if pos > textlen || u(&item["bytepos"]) != bytepos(pos) {
                out.push(("positionindex/bytepos".into(), json!({"resource": r["id"], "pos": pos, "stored": item["bytepos"], "actual": bytepos(pos.min(textlen))})));
            }
            let got_b2e: Vec<(usize, usize)> = item["begin2end"].as_array().cloned().unwrap_or_default().iter().map(|x| (u(&x[0]), u(&x[1]))).collect();
            let got_e2b: Vec<(usize, usize)> = item["end2begin"].as_array().cloned().unwrap_or_default().iter().map(|x| (u(&x[0]), u(&x[1]))).collect();
            let emptyset = BTreeSet::new();
            for (name, got, want) in [("begin2end", &got_b2e, b2e.get(&pos).unwrap_or(&emptyset)), ("end2begin", &got_e2b, e2b.get(&pos).unwrap_or(&emptyset))] {
                let gs: BTreeSet<(usize, usize)> = got.iter().copied().collect();
                if gs.len() != got.len() {
                    out.push((format!("positionindex/{}/duplicate", name), json!({"resource": r["id"], "pos": pos, "stored": got})));
                }
                if gs.difference(want).next().is_some() {
                    out.push((format!("positionindex/{}/stale", name), json!({"resource": r["id"], "pos": pos, "stored": got, "expected": want})));
                }
                if want.difference(&gs).next().is_some() {
                    out.push((format!("positionindex/{}/missing", name), json!({"resource": r["id"], "pos": pos, "stored": got, "expected": want})));
                }
            }
            if got_b2e.is_empty() && got_e2b.is_empty() {
                let milestone = interval > 0 && pos > 0 && pos % interval == 0 && pos < textlen;
                if !milestone {
                    out.push(("positionindex/empty-non-milestone".into(), json!({"resource": r["id"], "pos": pos, "interval": interval})));
                }
            }
        }
        for pos in b2e.keys().chain(e2b.keys()) {
            if !seenpos.contains(pos) {
                out.push(("positionindex/missing-position".into(), json!({"resource": r["id"], "pos": pos})));
            }
        }
        if interval > 0 {
            let mut p = interval;
            while p < textlen {
                if !seenpos.contains(&p) {
                    out.push(("positionindex/missing-milestone".into(), json!({"resource": r["id"], "pos": p, "interval": interval})));
                }
                p += interval;
            }
        }
        let mut b2c: BTreeSet<usize> = BTreeSet::new();
        for e in r["byte2charmap"].as_array().cloned().unwrap_or_default() {
            let (b, c) = (u(&e[0]), u(&e[1]));
            b2c.insert(c);
            if c > textlen || bytepos(c) != b {
                out.push(("byte2charmap/wrong".into(), json!({"resource": r["id"], "byte": b, "char": c})));
            }
        }
        for pos in &seenpos {
            if !b2c.contains(pos) && *pos <= textlen {
                out.push(("byte2charmap/missing".into(), json!({"resource": r["id"], "char": pos})));
            }
        }
    }

    // index_totalcount() agrees with the sums of the dump
    if let Some(t) = totals {
        let sum3 = |v: &Value| -> usize {
            v.as_array().map(|a| a.iter().map(|m| m.as_array().map(|x| x.iter().map(|y| y.as_array().map(|z| z.len()).unwrap_or(0)).sum::<usize>()).unwrap_or(0)).sum()).unwrap_or(0)
        };
        let sum2 = |v: &Value| -> usize { v.as_array().map(|a| a.iter().map(|x| x.as_array().map(|z| z.len()).unwrap_or(0)).sum()).unwrap_or(0) };
        let sumb = |v: &Value| -> usize { v.as_array().map(|a| a.iter().map(|x| x[1].as_array().map(|z| z.len()).unwrap_or(0)).sum()).unwrap_or(0) };
        let want = (
            sum3(&dump["dataset_data_annotation_map"]),
            sum3(&dump["textrelationmap"]),
            sum2(&dump["resource_annotation_metamap"]),
            sum2(&dump["dataset_annotation_metamap"]),
            sumb(&dump["annotation_annotation_map"]),
            sum3(&dump["key_annotation_map"]),
            sum3(&dump["key_annotation_metamap"]),
            sum3(&dump["data_annotation_metamap"]),
        );
        if want != t {
            out.push(("index_totalcount/disagrees-with-dump".into(), json!({"reported": format!("{:?}", t), "dump": format!("{:?}", want)})));
        }
        // and with the forward references
        let fwd = (f.data.len(), f.text.len(), f.res.len(), f.set.len(), f.ann.len(), f.key.len(), f.dat.len());
        let rep = (t.0, t.1, t.2, t.3, t.4, t.6, t.7);
        // only meaningful when no annotation names the same item twice
        let uniq = |n: usize, set: usize| n == set;
        let _ = uniq;
        if fwd != rep {
            let dedup = (
                f.data.iter().collect::<BTreeSet<_>>().len(),
                f.text.iter().collect::<BTreeSet<_>>().len(),
                f.res.iter().collect::<BTreeSet<_>>().len(),
                f.set.iter().collect::<BTreeSet<_>>().len(),
                f.ann.iter().collect::<BTreeSet<_>>().len(),
                f.key.iter().collect::<BTreeSet<_>>().len(),
                f.dat.iter().collect::<BTreeSet<_>>().len(),
            );
            if dedup != rep {
                out.push(("index_totalcount/disagrees-with-forward-references".into(), json!({"reported": format!("{:?}", rep), "forward": format!("{:?}", fwd)})));
            }
        }
    }
    out
}
