//! C01 — reverse lookups agree with forward references after any history (and after every prefix).
//! Oracles: (a) shadow model vs public API for every lookup of every live item after every operation,
//! (b) self-consistency of the hooked index dump, (c) index_totalcount() vs dump.

use crate::dumpcheck;
use crate::gen::{Gen, GenCfg};
use crate::hist::*;
use crate::model::*;
use crate::obs;
use crate::util::*;
use serde_json::json;

pub fn target_desc(op: &Op) -> String {
    match op {
        Op::Annotate(a) => match &a.target {
            Some(t) => match t {
                SelReq::Multi(v) | SelReq::Composite(v) | SelReq::Directional(v) => {
                    let mut kinds: Vec<&str> = v.iter().map(|s| s.kind()).collect();
                    kinds.sort();
                    kinds.dedup();
                    format!("{}[{}]", t.kind(), kinds.join(","))
                }
                _ => t.kind().to_string(),
            },
            None => "no-target".into(),
        },
        _ => String::new(),
    }
}

pub fn check_state(h: &History, rep: &mut Report, after: &str, prop: &str, use_dump: bool) -> bool {
    let mut clean = true;
    rep.eval();
    match obs::observe(&h.store, true, true) {
        Err(p) => {
            rep.violation(
                format!("{}/observe/panic/{}/after:{}", prop, p.class(), after),
                json!({"panic": p.msg, "at": p.loc, "history": h.replay_json()}),
            );
            return false;
        }
        Ok(real) => {
            let model = h.model.observe(true, true);
            if let Some((path, m, r)) = first_diff(&model, &real, "") {
                clean = false;
                rep.violation(
                    format!("{}/api{}/{}/after:{}", prop, path_class(&path), diff_kind(&m, &r), after),
                    json!({"path": path, "model": m, "library": r, "history": h.replay_json()}),
                );
            }
        }
    }
    #[cfg(feature = "dump")]
    if use_dump {
        rep.eval();
        match guard(|| (h.store.verif_dump(), h.store.index_totalcount())) {
            Ok((dump, totals)) => {
                for (class, detail) in dumpcheck::check(&dump, Some(totals)) {
                    clean = false;
                    rep.violation(
                        format!("{}/dump/{}/after:{}", prop, class, after),
                        json!({"finding": detail, "history": h.replay_json()}),
                    );
                }
            }
            Err(p) => {
                rep.violation(format!("{}/dump/panic/{}", prop, p.class()), json!({"panic": p.msg, "at": p.loc, "history": h.replay_json()}));
                clean = false;
            }
        }
    }
    #[cfg(not(feature = "dump"))]
    {
        let _ = use_dump;
        let _ = dumpcheck::check;
        rep.note("dump_unavailable: built without the verif-dump hook, dump-based sub-checks skipped");
    }
    clean
}

pub fn run(p: &Params, rep: &mut Report) {
    rep.rule = "seeded op-histories (add_resource, add_dataset, annotate with all nine selector kinds / 4 offset modes / relative offsets / range-compressed complex selectors, insert_data, remove_annotation/data(strict+non-strict)/key/resource/dataset, protect_text) on small stores; after EVERY operation every reverse lookup of every live item is compared with a full-scan shadow model and the hooked index dump is checked for self-consistency. distinct_nontrivial = distinct (operation kind, target selector kinds, store shape) triples observed with at least one annotation alive".into();
    rep.assumptions = vec![
        "the shadow model (harness/src/model.rs) is written from the documentation; operations whose outcome the documentation does not settle are not generated".into(),
        "an annotation naming the same target or data item twice is not generated (DESIGN 2.2 row 25 is judged separately)".into(),
        "DataKeySelector/AnnotationDataSelector are only generated as simple selectors (mixing them into complex selectors panics in the library's canonical sort; recorded in DESIGN.md)".into(),
    ];
    let total: u64 = if p.thorough { 200000 } else { 4000 };
    let maxops = if p.thorough { 40 } else { 25 };
    for k in p.cases(total) {
        rep.current_case = p.case_coord(k);
        rep.cases += 1;
        let mut rng = Rng::new(p.seed, "c01", k);
        let milestone = *rng.pick(&[100usize, 100, 0, 1, 3]);
        let mut h = History::new(milestone, rng.chance(1, 2));
        let mut cfg = GenCfg::default();
        cfg.hostile_ids = rng.chance(1, 4);
        cfg.keydata_in_complex = rng.chance(1, 3);
        let mut g = Gen::new(cfg);
        let nops = rng.range(5, maxops) as usize;
        for _ in 0..nops {
            let op = g.gen_op(&mut rng, &h.model);
            let r = h.step(&op);
            rep.count(&format!("op/{}/{}", op.kind(), r.agreement.class().split('/').next().unwrap_or("")));
            if let Op::Annotate(a) = &op {
                if let Some(t) = &a.target {
                    rep.count(&format!("selector/{}", t.kind()));
                    if let SelReq::Multi(v) | SelReq::Composite(v) | SelReq::Directional(v) = t {
                        for s in v {
                            rep.count(&format!("subselector/{}", s.kind()));
                        }
                    }
                }
            }
            if !r.agreement.in_step() {
                // other monitors own acceptance/refusal questions (C02, C04, C10, C14); the history ends here
                rep.count(&format!("history-ended/{}", r.agreement.class()));
                // ...but the store must still be consistent with the model (unchanged by a refused/panicking op)
                if let Agreement::Panic(pn) = &r.agreement {
                    // a request the model accepts must not bring the library down
                    if matches!(r.pred, Pred::Ok(_)) {
                        rep.violation(format!("C01/panic/{}/{}", op.kind(), pn.class().chars().take(90).collect::<String>()), json!({"panic": pn.msg, "at": pn.loc, "target": target_desc(&op), "history": h.replay_json()}));
                    }
                }
                break;
            }
            if !h.model.anns.is_empty() {
                rep.distinct(&format!("{}|{}|{}", op.kind(), target_desc(&op), h.model.shape()));
            }
            if !r.effect.removed_annotations.is_empty() {
                rep.count_n("cascade/removed_annotations", r.effect.removed_annotations.len() as u64);
            }
            let clean = check_state(&h, rep, op.kind(), "C01", true);
            if !clean {
                rep.count("history-ended/violation");
                break;
            }
        }
        crate::adaptors::adaptors(&h, rep, &mut rng);
        if k % 97 == 0 {
            rep.sample(json!({"case": k, "milestone_interval": milestone, "history": h.replay_json(), "final_shape": h.model.shape()}));
        }
    }
}

/// debugging aid: print the event log of one case
pub fn trace(p: &Params, k: u64) {
    let mut rng = Rng::new(p.seed, "c01", k);
    let milestone = *rng.pick(&[100usize, 100, 0, 1, 3]);
    let mut h = History::new(milestone, rng.chance(1, 2));
    let mut cfg = GenCfg::default();
    cfg.hostile_ids = rng.chance(1, 4);
    let mut g = Gen::new(cfg);
    let nops = rng.range(5, 25) as usize;
    for _ in 0..nops {
        let op = g.gen_op(&mut rng, &h.model);
        let r = h.step(&op);
        println!("{}\n   -> {} [{}]", op.to_json(), r.outcome.to_json(), r.agreement.class());
        if !r.agreement.in_step() {
            break;
        }
    }
}
