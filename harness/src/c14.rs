//! C14 — failed mutations leave the store observably unchanged.
//! Oracle: snapshot (canonical observation with handles and every lookup, search answers, hooked dump of all
//! stores and indices) before a request the shadow model says must be refused, compared with the snapshot
//! after the refusal; then the corrected request on the same store against a twin that never saw the failure.

use crate::c12::answers;
use crate::drive::{annotationbuilder, execute, Outcome};
use crate::gen::{Gen, GenCfg};
use crate::hist::*;
use crate::model::*;
use crate::obs;
use crate::util::*;
use serde_json::{json, Value};
use stam::*;

fn strip_volatile(v: &mut Value) {
    match v {
        Value::Object(m) => {
            m.remove("changed");
            m.remove("serialize_mode");
            for (_, x) in m.iter_mut() {
                strip_volatile(x);
            }
        }
        Value::Array(a) => {
            for x in a.iter_mut() {
                strip_volatile(x);
            }
        }
        _ => {}
    }
}

pub struct Snapshot {
    obs: Value,
    answers: Value,
    dump: Value,
}

pub fn snapshot(store: &AnnotationStore) -> Option<Snapshot> {
    let obs = obs::observe(store, true, true).ok()?;
    let answers = answers(store).ok()?;
    #[cfg(feature = "dump")]
    let dump = {
        let mut d = guard(|| store.verif_dump()).ok()?;
        strip_volatile(&mut d);
        d
    };
    #[cfg(not(feature = "dump"))]
    let dump = Value::Null;
    Some(Snapshot { obs, answers, dump })
}

/// what a failed call left behind: the first difference, as (level, class, detail)
pub fn leftover(before: &Snapshot, after: &Snapshot) -> Option<(String, Value)> {
    if let Some((path, a, b)) = first_diff(&before.obs, &after.obs, "") {
        return Some((format!("observation{}", path_class(&path)), json!({"path": path, "before": a, "after": b})));
    }
    if let Some((path, a, b)) = first_diff(&before.answers, &after.answers, "") {
        return Some((format!("answers/{}", path.split('/').nth(2).unwrap_or("")), json!({"path": path, "before": a, "after": b})));
    }
    if let Some((path, a, b)) = first_diff(&before.dump, &after.dump, "") {
        let cls: String = path.split('/').filter(|c| !c.is_empty() && !c.chars().all(|ch| ch.is_ascii_digit())).take(4).collect::<Vec<_>>().join("/");
        return Some((format!("dump/{}", cls), json!({"path": path, "before": a, "after": b})));
    }
    None
}

/// the class of what is left behind (for root-cause signatures): which kind of item appeared
/// number of live text selections over all resources (from the hooked dump)
fn textselection_count(s: &Snapshot) -> usize {
    s.dump["resources"].as_array().map(|a| a.iter().map(|r| r["textselections"].as_array().map(|x| x.iter().filter(|t| !t.is_null()).count()).unwrap_or(0)).sum()).unwrap_or(0)
}

fn leak_class(before: &Snapshot, after: &Snapshot) -> String {
    let count = |v: &Value, path: &[&str]| -> usize {
        let mut cur = v;
        for p in path {
            cur = &cur[*p];
        }
        cur.as_array().map(|a| a.len()).unwrap_or(0)
    };
    let mut parts = Vec::new();
    let n = |s: &Snapshot, what: &str| -> usize {
        match what {
            "annotations" => count(&s.obs, &["annotations"]),
            "datasets" => count(&s.obs, &["datasets"]),
            "resources" => count(&s.obs, &["resources"]),
            _ => 0,
        }
    };
    for what in ["annotations", "datasets", "resources"] {
        if n(after, what) != n(before, what) {
            parts.push(what.to_string());
        }
    }
    let inner = |s: &Snapshot, field: &str| -> usize { s.obs["datasets"].as_array().map(|a| a.iter().map(|d| d[field].as_array().map(|x| x.len()).unwrap_or(0)).sum()).unwrap_or(0) };
    if inner(after, "keys") != inner(before, "keys") {
        parts.push("keys".into());
    }
    if inner(after, "data") != inner(before, "data") {
        parts.push("data".into());
    }
    let ts = |s: &Snapshot| -> usize {
        s.dump["resources"].as_array().map(|a| a.iter().map(|r| r["textselections"].as_array().map(|x| x.iter().filter(|t| !t.is_null()).count()).unwrap_or(0)).sum()).unwrap_or(0)
    };
    if ts(after) != ts(before) {
        parts.push("textselections".into());
    }
    if parts.is_empty() {
        "other".into()
    } else {
        parts.join("+")
    }
}

#[derive(Debug, Clone)]
struct Fault {
    name: &'static str,
    bad: Op,
    /// the same request with the mistake corrected
    good: Option<Op>,
    /// valid operations that shape the store before the invalid request
    setup: Vec<Op>,
}

fn absent() -> Ref {
    Ref::Id("does-not-exist".into())
}

/// turn a valid annotate request into invalid ones
fn faults_for(rng: &mut Rng, g: &mut Gen, m: &Model) -> Vec<Fault> {
    let mut out = Vec::new();
    let Some(Op::Annotate(req)) = g.gen_annotate(rng, m) else { return out };
    let good = Op::Annotate(req.clone());
    let with_target = |t: SelReq| {
        let mut r = req.clone();
        r.target = Some(t);
        Op::Annotate(r)
    };
    // a request that brings new things: fresh data (new key or new set), fresh text selection
    let fresh_data = DataReq { set: Ref::Id(g.fresh_id(rng, "s")), id: Ref::None, key: Ref::Id(g.fresh_id(rng, "k")), value: DataValue::String("fresh".into()) };
    let fresh_key_existing_set = m.sets.values().next().map(|s| DataReq { set: Ref::Id(s.id.clone()), id: Ref::None, key: Ref::Id(g.fresh_id(rng, "k")), value: DataValue::Int(7) });
    // a valid target that is already known, and listed in the position index after a longer selection with the same begin
    if let Some(r) = m.resources.values().find(|r| r.text.len() >= 3) {
        let len = r.text.len();
        let b = rng.below(len - 2);
        let e1 = len;
        let e2 = b + 1 + rng.below(len - b - 1);
        if e2 < e1 {
            let ann = |e: usize, data: Vec<DataReq>| Op::Annotate(AnnReq { id: None, target: Some(SelReq::Text(Ref::Id(r.id.clone()), Off::simple(b, e))), data });
            if let Some(s) = m.sets.values().next() {
                // a reference to existing data by an id that does not exist
                // (alone: data items before it would be inserted first, which is the recorded finding)
                let bad_data = vec![DataReq { set: Ref::Id(s.id.clone()), id: Ref::Id("no-such-data".into()), key: Ref::None, value: DataValue::Null }];
                out.push(Fault { name: "known-shadowed-target+unknown-data-id", bad: ann(e2, bad_data), good: Some(ann(e2, req.data.clone())), setup: vec![ann(e1, vec![]), ann(e2, vec![])] });
            }
            // the same known selection addressed through the longer annotation and a relative offset
            if let Some(s) = m.sets.values().next() {
                let long_id = g.fresh_id(rng, "a");
                let long = Op::Annotate(AnnReq { id: Some(long_id.clone()), target: Some(SelReq::Text(Ref::Id(r.id.clone()), Off::simple(b, e1))), data: vec![] });
                let via = |data: Vec<DataReq>| Op::Annotate(AnnReq { id: None, target: Some(SelReq::Ann(Ref::Id(long_id.clone()), Some(Off::simple(0, e2 - b)))), data });
                let bad_data = vec![DataReq { set: Ref::Id(s.id.clone()), id: Ref::Id("no-such-data".into()), key: Ref::None, value: DataValue::Null }];
                out.push(Fault { name: "known-shadowed-target-via-annotation+unknown-data-id", bad: via(bad_data), good: Some(via(req.data.clone())), setup: vec![long, ann(e2, vec![])] });
            }
            // the known selection as the first member of a complex selector whose last member is out of range
            out.push(Fault {
                name: "known-shadowed-member+invalid-last-member",
                bad: Op::Annotate(AnnReq { id: None, target: Some(SelReq::Composite(vec![SelReq::Text(Ref::Id(r.id.clone()), Off::simple(b, e2)), SelReq::Text(Ref::Id(r.id.clone()), Off::simple(len + 1, len + 2))])), data: vec![] }),
                good: Some(ann(e2, req.data.clone())),
                setup: vec![ann(e1, vec![]), ann(e2, vec![])],
            });
        }
    }
    let mut push = |name: &'static str, bad: Op, good: Option<Op>| out.push(Fault { name, bad, good, setup: Vec::new() });

    // invalid targets (with the data of the valid request, plus data that is new to the store)
    let mut with_new_data = req.clone();
    with_new_data.data.push(fresh_data.clone());
    if let Some(d) = &fresh_key_existing_set {
        with_new_data.data.push(d.clone());
    }
    let good_new = Op::Annotate(with_new_data.clone());
    let bad_target = |t: SelReq| {
        let mut r = with_new_data.clone();
        r.target = Some(t);
        Op::Annotate(r)
    };
    push("unknown-resource", bad_target(SelReq::Text(absent(), Off::simple(0, 1))), Some(good_new.clone()));
    push("unknown-annotation", bad_target(SelReq::Ann(absent(), None)), Some(good_new.clone()));
    push("unknown-dataset", bad_target(SelReq::Set(absent())), Some(good_new.clone()));
    if let Some(s) = m.sets.values().next() {
        push("unknown-key", bad_target(SelReq::Key(Ref::Id(s.id.clone()), absent())), Some(good_new.clone()));
        push("unknown-data", bad_target(SelReq::Data(Ref::Id(s.id.clone()), absent())), Some(good_new.clone()));
    }
    if let Some(r) = m.resources.values().next() {
        let len = r.text.len();
        push("offset-out-of-range", bad_target(SelReq::Text(Ref::Id(r.id.clone()), Off::simple(len + 1, len + 3))), Some(good_new.clone()));
        push("offset-end-out-of-range", bad_target(SelReq::Text(Ref::Id(r.id.clone()), Off::simple(0, len + 2))), Some(good_new.clone()));
        if len >= 2 {
            push("offset-inverted", bad_target(SelReq::Text(Ref::Id(r.id.clone()), Off::simple(2, 1))), Some(good_new.clone()));
        }
        // a complex selector whose last member is invalid: the earlier members are valid new text selections
        let (b, e) = crate::gen::gen_range(rng, len);
        push(
            "complex-with-invalid-last-member",
            bad_target(SelReq::Composite(vec![SelReq::Text(Ref::Id(r.id.clone()), Off::simple(b, e)), SelReq::Text(Ref::Id(r.id.clone()), Off::simple(len + 1, len + 2))])),
            Some(good_new.clone()),
        );
        push(
            "nested-complex-selector",
            bad_target(SelReq::Multi(vec![SelReq::Text(Ref::Id(r.id.clone()), Off::simple(b, e)), SelReq::Composite(vec![SelReq::Text(Ref::Id(r.id.clone()), Off::simple(0, len.min(1)))])])),
            Some(good_new.clone()),
        );
        // the nested complex selector comes first (or alone): nothing has been resolved when the request is refused
        let (b2, e2) = crate::gen::gen_range(rng, len);
        let inner = SelReq::Composite(vec![SelReq::Text(Ref::Id(r.id.clone()), Off::simple(b2, e2)), SelReq::Text(Ref::Id(r.id.clone()), Off::simple(e2, len))]);
        let members = if rng.chance(1, 2) { vec![inner] } else { vec![inner, SelReq::Text(Ref::Id(r.id.clone()), Off::simple(b, e))] };
        push("nested-complex-selector-first", bad_target(SelReq::Multi(members)), Some(good_new.clone()));
    }
    {
        let mut r = with_new_data.clone();
        r.target = None;
        push("missing-target", Op::Annotate(r), Some(good_new.clone()));
    }
    // requests that are valid, but at the edge of what is valid, in the last member of a complex selector whose first member is a
    // new text selection (and with new data): accepted on the pinned tree; if the library does refuse one, nothing may stay behind
    if let Some(r) = m.resources.values().next() {
        let len = r.text.len();
        // without an identifier of its own: the corrected forms of other faults may have used the one of the request
        let edge = |t: SelReq| {
            let mut r = with_new_data.clone();
            r.id = None;
            r.target = Some(t);
            Op::Annotate(r)
        };
        let (b, e) = crate::gen::gen_range(rng, len);
        let first = SelReq::Text(Ref::Id(r.id.clone()), Off::simple(b, e));
        let wrap = |rng: &mut Rng, v: Vec<SelReq>| match rng.below(3) {
            0 => SelReq::Multi(v),
            1 => SelReq::Composite(v),
            _ => SelReq::Directional(v),
        };
        let cands: Vec<usize> = m.anns.keys().copied().filter(|a| m.parent_range(*a).is_some()).collect();
        if !cands.is_empty() {
            let a = *rng.pick(&cands);
            let (_, pb, pe) = m.parent_range(a).unwrap();
            let l = pe - pb;
            let p = rng.below(l + 1);
            let last = SelReq::Ann(g.r_ann(rng, m, a), Some(crate::gen::offset_in_mode(l, p, p, rng.below(4))));
            let t = wrap(rng, vec![first.clone(), last]);
            push("edge-valid:zero-width-relative-last-member", edge(t), None);
            let last = SelReq::Ann(g.r_ann(rng, m, a), Some(crate::gen::offset_in_mode(l, 0, l, rng.below(4))));
            let t = wrap(rng, vec![first.clone(), last]);
            push("edge-valid:whole-relative-last-member", edge(t), None);
        }
        let p = if rng.chance(1, 2) { len } else { rng.below(len + 1) };
        let last = SelReq::Text(Ref::Id(r.id.clone()), crate::gen::offset_in_mode(len, p, p, rng.below(4)));
        let t = wrap(rng, vec![first.clone(), last]);
        push("edge-valid:zero-width-last-member", edge(t), None);
        let last = SelReq::Text(Ref::Id(r.id.clone()), crate::gen::offset_in_mode(len, 0, len, 1 + rng.below(3)));
        let t = wrap(rng, vec![first.clone(), last]);
        push("edge-valid:end-aligned-whole-last-member", edge(t), None);
    }
    // valid target, invalid data
    {
        let mut r = req.clone();
        r.data.push(DataReq { set: Ref::Handle(9999), id: Ref::None, key: Ref::Id("k".into()), value: DataValue::Null });
        push("valid-target+unknown-set-handle", Op::Annotate(r), Some(good.clone()));
    }
    if let Some(s) = m.sets.values().next() {
        let mut r = req.clone();
        r.data.insert(0, fresh_data.clone());
        r.data.push(DataReq { set: Ref::Id(s.id.clone()), id: Ref::None, key: Ref::Handle(9999), value: DataValue::Null });
        let mut gd = req.clone();
        gd.data.insert(0, fresh_data.clone());
        push("valid-target+new-data+unknown-key-handle", Op::Annotate(r), Some(Op::Annotate(gd)));
        let mut r = req.clone();
        r.data.push(DataReq { set: Ref::Id(s.id.clone()), id: Ref::Handle(9999), key: Ref::None, value: DataValue::Null });
        push("valid-target+unknown-data-handle", Op::Annotate(r), Some(good.clone()));
    }
    // duplicate identifiers
    if let Some(a) = m.anns.values().find(|a| a.id.is_some()) {
        let mut r = with_new_data.clone();
        r.id = a.id.clone();
        push("duplicate-annotation-id", Op::Annotate(r), Some(good_new.clone()));
    }
    if let Some(r) = m.resources.values().next() {
        push("duplicate-resource-id", Op::AddResource { id: r.id.clone(), text: "other text".into() }, Some(Op::AddResource { id: g.fresh_id(rng, "r"), text: "other text".into() }));
    }
    if let Some(s) = m.sets.values().next() {
        push("duplicate-dataset-id", Op::AddDataset { id: s.id.clone(), items: vec![("knew".into(), DataValue::Int(1), None)] }, Some(Op::AddDataset { id: g.fresh_id(rng, "s"), items: vec![("knew".into(), DataValue::Int(1), None)] }));
        // data with an id that already exists but another key/value
        if let Some(d) = s.data.values().find(|d| d.id.is_some()) {
            push(
                "insert-data-duplicate-id",
                Op::InsertData(DataReq { set: Ref::Id(s.id.clone()), id: Ref::Id(d.id.clone().unwrap()), key: Ref::Id(g.fresh_id(rng, "k")), value: DataValue::String("clash".into()) }),
                None,
            );
        }
    }
    push("insert-data-unknown-set-handle", Op::InsertData(DataReq { set: Ref::Handle(9999), id: Ref::None, key: Ref::Id("k".into()), value: DataValue::Int(3) }), None);
    let _ = with_target;
    out
}

fn twin_of(ok_ops: &[Op], milestone: usize, shrink: bool) -> History {
    let mut t = History::new(milestone, shrink);
    for op in ok_ops {
        t.step(op);
    }
    t
}

fn single_faults(rep: &mut Report, rng: &mut Rng, h: &mut History, g: &mut Gen, ok_ops: &mut Vec<Op>, milestone: usize, shrink: bool, nfaults: usize) -> bool {
    let mut faults = faults_for(rng, g, &h.model);
    rng.shuffle(&mut faults);
    for f in faults.into_iter().take(nfaults) {
        for op in &f.setup {
            if h.step(op).agreement.in_step() {
                ok_ops.push(op.clone());
            } else {
                *h = twin_of(ok_ops, milestone, shrink);
            }
        }
        let Some(before) = snapshot(&h.store) else { return false };
        // the model decides whether the request must be refused
        let r = h.step(&f.bad);
        rep.eval();
        match &r.agreement {
            Agreement::Refused => {}
            Agreement::Ok => {
                rep.count(&format!("fault-accepted-by-model-and-library/{}", f.name));
                ok_ops.push(f.bad.clone());
                continue;
            }
            Agreement::Panic(p) => {
                rep.violation(format!("C14/{}/panic/{}", f.name, p.class()), json!({"request": f.bad.to_json(), "panic": p.msg, "at": p.loc, "history": h.replay_json()}));
                return false;
            }
            other => {
                // accepts-invalid / refuses-valid / unspecified: whether the call should have been refused is C03/C04's business.
                // But when the library did return an error, the store must be as it was, whatever the model expected
                rep.count(&format!("not-judged/{}/{}", f.name, other.class().split('/').next().unwrap_or("")));
                if matches!(r.outcome, crate::drive::Outcome::Err(_)) {
                    if let Some(after) = snapshot(&h.store) {
                        if let Some((cls, detail)) = leftover(&before, &after) {
                            let leak = leak_class(&before, &after);
                            // the recorded root cause (annotate() does not undo its earlier steps) applies here as well
                            let explained = matches!(f.bad, Op::Annotate(_)) && !f.name.starts_with("known-shadowed") && !f.name.starts_with("edge-valid") && leak.split('+').all(|x| ["datasets", "keys", "data", "textselections"].contains(&x));
                            rep.violation(
                                format!("C14/{}/leaves/{}", f.name, if explained { "explained:earlier-steps-of-annotate-are-not-rolled-back".to_string() } else { leak.clone() }),
                                json!({"request": f.bad.to_json(), "error": r.outcome.to_json(), "model": other.class(), "first_difference": cls, "detail": detail, "history": h.replay_json()}),
                            );
                        }
                    }
                }
                *h = twin_of(ok_ops, milestone, shrink);
                continue;
            }
        }
        let Some(after) = snapshot(&h.store) else {
            rep.violation(format!("C14/{}/store-not-observable-after-refusal", f.name), json!({"request": f.bad.to_json(), "history": h.replay_json()}));
            return false;
        };
        rep.distinct(&format!("refused/{}", f.name));
        if rep.samples.len() < 3 {
            rep.sample(json!({"fault": f.name, "request": f.bad.to_json(), "error": r.outcome.to_json(), "operations_before": h.ops.len()}));
        }
        if let Some((cls, detail)) = leftover(&before, &after) {
            // root cause recorded as a finding: annotate() resolves the target (inserting text selections), then inserts the
            // data (creating sets and keys), then the annotation; a failure in a later step does not undo the earlier ones
            let leak = leak_class(&before, &after);
            rep.count(&format!("left-behind/{}/{}", f.name, leak));
            // what the recorded finding leaves behind, per fault: a complex selector refused at a later member leaves the one text
            // selection of its first member and nothing else; a failure after the data step may leave sets, keys, data and the target's selection
            let explained = matches!(f.bad, Op::Annotate(_))
                && match f.name {
                    "nested-complex-selector-first" => false,
                    // the target is known already and nothing precedes the failing step: the pinned tree leaves nothing
                    n if n.starts_with("known-shadowed") || n.starts_with("edge-valid") => false,
                    "complex-with-invalid-last-member" | "nested-complex-selector" => leak == "textselections" && textselection_count(&after) == textselection_count(&before) + 1,
                    _ => leak.split('+').all(|x| ["datasets", "keys", "data", "textselections"].contains(&x)),
                };
            rep.violation(
                format!("C14/{}/leaves/{}", f.name, if explained { "explained:earlier-steps-of-annotate-are-not-rolled-back".to_string() } else { leak.clone() }),
                json!({"request": f.bad.to_json(), "error": r.outcome.to_json(), "first_difference": cls, "detail": detail, "history": h.replay_json()}),
            );
            // the store and the model are out of step now: start again from the accepted operations
            *h = twin_of(ok_ops, milestone, shrink);
            continue;
        }
        // the corrected request behaves as if the failure never happened
        if let Some(good) = &f.good {
            let r2 = h.step(good);
            rep.eval();
            if !matches!(r2.agreement, Agreement::Ok) {
                rep.count(&format!("corrected-not-accepted/{}/{}", f.name, r2.agreement.class().split('/').next().unwrap_or("")));
                *h = twin_of(ok_ops, milestone, shrink);
                continue;
            }
            ok_ops.push(good.clone());
            let t = twin_of(ok_ops, milestone, shrink);
            match (snapshot(&h.store), snapshot(&t.store)) {
                (Some(a), Some(b)) => {
                    rep.distinct(&format!("corrected/{}", f.name));
                    if let Some((cls, detail)) = leftover(&b, &a) {
                        rep.violation(
                            format!("C14/{}/corrected-call-differs-from-twin/{}", f.name, cls.split('/').take(3).collect::<Vec<_>>().join("/")),
                            json!({"request": f.bad.to_json(), "corrected": good.to_json(), "first_difference": cls, "detail": detail, "history": h.replay_json()}),
                        );
                        *h = twin_of(ok_ops, milestone, shrink);
                        continue;
                    }
                }
                _ => rep.count("twin-not-observable"),
            }
        }
    }
    true
}

/// batch entry points: annotate_from_iter, with_annotations (consumes the store), annotate_from_file, query ADD
fn batch_fault(rep: &mut Report, rng: &mut Rng, h: &mut History, g: &mut Gen, workdir: &str, k: u64) {
    // two valid requests (everything referred to by id) and an invalid one first / in between / last
    let Some(res) = h.model.resources.values().next() else { return };
    let len = res.text.len();
    let mut valid: Vec<AnnReq> = Vec::new();
    for _ in 0..2 {
        let (b, e) = crate::gen::gen_range(rng, len);
        let set = match h.model.sets.values().next() {
            Some(s) if rng.chance(1, 2) => s.id.clone(),
            _ => g.fresh_id(rng, "s"),
        };
        valid.push(AnnReq {
            id: Some(g.fresh_id(rng, "a")),
            target: Some(SelReq::Text(Ref::Id(res.id.clone()), Off::simple(b, e))),
            data: vec![DataReq { set: Ref::Id(set), id: Ref::None, key: Ref::Id(g.fresh_id(rng, "k")), value: DataValue::String("batch".into()) }],
        });
    }
    let bad = AnnReq { id: None, target: Some(SelReq::Text(Ref::Id(res.id.clone()), Off::simple(len + 1, len + 2))), data: vec![DataReq { set: Ref::Id(g.fresh_id(rng, "s")), id: Ref::None, key: Ref::Id("kb".into()), value: DataValue::Int(1) }] };
    let pos = rng.below(3);
    let mut batch = valid.clone();
    batch.insert(pos.min(batch.len()), bad);
    let posname = ["first", "middle", "last"][pos];
    let api = *rng.pick(&["annotate_from_iter", "annotate_from_file", "annotate_from_file-malformed-item", "query-add", "query-add-offset"]);
    let Some(before) = snapshot(&h.store) else { return };
    rep.eval();
    let outcome: Result<Result<(), String>, Panic> = match api {
        "annotate_from_iter" => {
            let builders: Vec<AnnotationBuilder> = batch.iter().map(annotationbuilder).collect();
            guard(|| h.store.annotate_from_iter(builders).map(|_| ()).map_err(|e| format!("{}", e)))
        }
        "annotate_from_file" => {
            // STAM JSON file with a list of annotations (ids only, no handles)
            let items: Vec<Value> = batch.iter().filter_map(req_json).collect();
            if items.len() != batch.len() {
                return;
            }
            let path = format!("{}/c14-{}.annotations.json", workdir, k);
            std::fs::write(&path, serde_json::to_string(&items).unwrap()).expect("write");
            let r = guard(|| h.store.annotate_from_file(&path).map(|_| ()).map_err(|e| format!("{}", e)));
            let _ = std::fs::remove_file(&path);
            r
        }
        "annotate_from_file-malformed-item" => {
            // the invalid item is not a well-formed annotation at all (no target / no @type / target of the wrong JSON type):
            // the file is refused while it is read, before anything is added
            let mut items: Vec<Value> = valid.iter().filter_map(req_json).collect();
            if items.len() != valid.len() {
                return;
            }
            let mut broken = items[0].clone();
            broken["@id"] = json!("malformed-item");
            match rng.below(3) {
                0 => {
                    broken.as_object_mut().map(|o| o.remove("target"));
                }
                1 => broken["target"] = json!(7),
                _ => broken["target"] = json!({"@type": "TextSelector"}),
            }
            items.insert(pos.min(items.len()), broken);
            let path = format!("{}/c14-{}.annotations.json", workdir, k);
            std::fs::write(&path, serde_json::to_string(&items).unwrap()).expect("write");
            let r = guard(|| h.store.annotate_from_file(&path).map(|_| ()).map_err(|e| format!("{}", e)));
            let _ = std::fs::remove_file(&path);
            r
        }
        "query-add-offset" => {
            // the target of every row is the row's text narrowed by one relative offset: fine for the longer selections,
            // inverted or out of bounds for the shorter ones; whether it fails is decided before anything is added
            if res.id.contains('"') || res.id.contains('\\') {
                return;
            }
            let text = format!(
                "ADD ANNOTATION WITH DATA \"{}\" \"kq\" \"v\"; TARGET ?x OFFSET {} -{}; {{ SELECT TEXT ?x WHERE RESOURCE \"{}\"; }}",
                g.fresh_id(rng, "s"),
                rng.below(4),
                rng.below(4),
                res.id
            );
            guard(|| match Query::try_from(text.as_str()) {
                Ok(q) => h.store.query_mut(q).map(|_| ()).map_err(|e| format!("{}", e)),
                Err(e) => Err(format!("parse: {}", e)),
            })
        }
        _ => {
            // an ADD query is a batch over the rows of its sub-query: with a fixed ID the second row fails on the duplicate id
            if h.model.anns.len() < 2 || res.id.contains('"') || res.id.contains('\\') {
                return;
            }
            let text = format!("ADD ANNOTATION WITH ID \"{}\"; DATA \"{}\" \"kq\" \"v\"; TARGET ?x; {{ SELECT ANNOTATION ?x }}", g.fresh_id(rng, "a"), g.fresh_id(rng, "s"));
            guard(|| match Query::try_from(text.as_str()) {
                Ok(q) => h.store.query_mut(q).map(|_| ()).map_err(|e| format!("{}", e)),
                Err(e) => Err(format!("parse: {}", e)),
            })
        }
    };
    match outcome {
        Err(p) => rep.violation(format!("C14/{}/panic/{}", api, p.class()), json!({"batch": batch.iter().map(|b| b.to_json()).collect::<Vec<_>>(), "panic": p.msg, "at": p.loc, "history": h.replay_json()})),
        Ok(Ok(())) => rep.count(&format!("batch-accepted/{}", api)),
        Ok(Err(e)) => {
            let Some(after) = snapshot(&h.store) else {
                rep.violation(format!("C14/{}/store-not-observable-after-refusal", api), json!({"history": h.replay_json()}));
                return;
            };
            rep.distinct(&format!("batch-refused/{}/{}", api, posname));
            rep.count(&format!("batch-refused/{}/{}", api, normalise_msg(&e.chars().take(70).collect::<String>())));
            if let Some((first, detail)) = leftover(&before, &after) {
                let leak = leak_class(&before, &after);
                rep.count(&format!("left-behind/{}/{}", api, leak));
                let cls = if api == "query-add-offset" || api == "annotate_from_file-malformed-item" {
                    // refused before anything is added on the pinned tree
                    leak.clone()
                } else if api == "query-add" && leak != "annotations+datasets+keys+data" {
                    // the recorded finding for the fixed-id ADD query leaves exactly the first row's annotation with its new set, key and data
                    leak.clone()
                } else if leak.split('+').any(|x| x == "annotations") {
                    "explained:items-before-the-invalid-one-stay".to_string()
                } else if leak.split('+').all(|x| ["datasets", "keys", "data", "textselections"].contains(&x)) {
                    "explained:earlier-steps-of-annotate-are-not-rolled-back".to_string()
                } else {
                    leak.clone()
                };
                let _ = posname;
                rep.violation(
                    format!("C14/{}/leaves/{}", api, cls),
                    json!({"batch": batch.iter().map(|b| b.to_json()).collect::<Vec<_>>(), "error": e, "first_difference": first, "left_behind": leak, "detail": detail, "history": h.replay_json()}),
                );
            }
        }
    }
}

/// builders that carry several items: a dataset with keys and data of which one item cannot be resolved (first, in the middle or
/// last), a resource whose file does not exist. Returns false when the store may have changed
fn builder_fault(rep: &mut Report, rng: &mut Rng, h: &mut History, g: &mut Gen) -> bool {
    let Some(before) = snapshot(&h.store) else { return false };
    let which = rng.below(4);
    let pos = rng.below(3);
    let posname = ["first", "middle", "last"][pos];
    let setid = if which == 3 { h.model.sets.values().next().map(|s| s.id.clone()).unwrap_or_else(|| g.fresh_id(rng, "s")) } else { g.fresh_id(rng, "s") };
    let (k1, k2) = (g.fresh_id(rng, "k"), g.fresh_id(rng, "k"));
    let d1 = g.fresh_id(rng, "d");
    let resid = g.fresh_id(rng, "r");
    let name: String = match which {
        0 => "add_dataset/item-refers-to-unknown-data-id".into(),
        1 => "add_dataset/item-with-unknown-key-handle".into(),
        2 => "add_resource/file-does-not-exist".into(),
        _ => "add_dataset/existing-id-and-unknown-data-id".into(),
    };
    rep.eval();
    let outcome: Result<Result<(), String>, Panic> = if which == 2 {
        guard(|| h.store.add_resource(TextResourceBuilder::new().with_id(resid.clone()).with_filename("/nonexistent-dir-c14/none.txt")).map(|_| ()).map_err(|e| e.to_string()))
    } else {
        let bad: AnnotationDataBuilder = if which == 1 {
            AnnotationDataBuilder::new().with_key(BuildItem::Handle(DataKeyHandle::new(9999))).with_value(DataValue::Int(1))
        } else {
            AnnotationDataBuilder::new().with_id("no-such-data-item".into())
        };
        let mut items: Vec<AnnotationDataBuilder> = vec![
            AnnotationDataBuilder::new().with_key(k1.clone().into()).with_value(DataValue::String("v".into())).with_id(d1.clone().into()),
            AnnotationDataBuilder::new().with_key(k2.clone().into()).with_value(DataValue::Int(2)),
        ];
        items.insert(pos.min(items.len()), bad);
        let mut b = AnnotationDataSetBuilder::new().with_id(setid.clone());
        for i in items {
            b = b.with_data(i);
        }
        guard(|| h.store.add_dataset(b).map(|_| ()).map_err(|e| e.to_string()))
    };
    match outcome {
        Err(p) => {
            rep.violation(format!("C14/{}/panic/{}", name, p.class()), json!({"position": posname, "panic": p.msg, "at": p.loc, "history": h.replay_json()}));
            false
        }
        Ok(Ok(())) => {
            rep.count(&format!("builder-fault-accepted/{}", name));
            false
        }
        Ok(Err(e)) => {
            let Some(after) = snapshot(&h.store) else {
                rep.violation(format!("C14/{}/store-not-observable-after-refusal", name), json!({"history": h.replay_json()}));
                return false;
            };
            rep.distinct(&format!("refused/{}/{}", name, posname));
            rep.count(&format!("builder-refused/{}/{}", name, posname));
            if let Some((first, detail)) = leftover(&before, &after) {
                let leak = leak_class(&before, &after);
                rep.violation(format!("C14/{}/leaves/{}", name, leak), json!({"position": posname, "dataset": setid, "error": e, "first_difference": first, "detail": detail, "history": h.replay_json()}));
                return false;
            }
            true
        }
    }
}

/// STAM JSON for a request that refers to everything by id
fn req_json(r: &AnnReq) -> Option<Value> {
    fn id(r: &Ref) -> Option<&str> {
        match r {
            Ref::Id(s) => Some(s),
            _ => None,
        }
    }
    fn cur(c: &Cur) -> Value {
        match c {
            Cur::B(n) => json!({"@type": "BeginAlignedCursor", "value": n}),
            Cur::E(n) => json!({"@type": "EndAlignedCursor", "value": n}),
        }
    }
    fn sel(s: &SelReq) -> Option<Value> {
        Some(match s {
            SelReq::Text(r, o) => json!({"@type": "TextSelector", "resource": id(r)?, "offset": {"begin": cur(&o.begin), "end": cur(&o.end)}}),
            SelReq::Res(r) => json!({"@type": "ResourceSelector", "resource": id(r)?}),
            SelReq::Set(r) => json!({"@type": "DataSetSelector", "dataset": id(r)?}),
            SelReq::Ann(r, None) => json!({"@type": "AnnotationSelector", "annotation": id(r)?}),
            _ => return None,
        })
    }
    let mut data = Vec::new();
    for d in &r.data {
        let (DataValue::String(_) | DataValue::Int(_) | DataValue::Null | DataValue::Bool(_)) = &d.value else { return None };
        if !matches!(d.id, Ref::None) {
            return None;
        }
        let value = match &d.value {
            DataValue::String(v) => json!({"@type": "String", "value": v}),
            DataValue::Int(v) => json!({"@type": "Int", "value": v}),
            DataValue::Bool(v) => json!({"@type": "Bool", "value": v}),
            _ => json!({"@type": "Null"}),
        };
        data.push(json!({"@type": "AnnotationData", "set": id(&d.set)?, "key": id(&d.key)?, "value": value}));
    }
    let mut o = json!({"@type": "Annotation", "target": sel(r.target.as_ref()?)?, "data": data});
    if let Some(i) = &r.id {
        o["@id"] = json!(i);
    }
    Some(o)
}

pub fn run(p: &Params, rep: &mut Report) {
    rep.rule = "stores reached by seeded histories of the C01 generator; per store up to 10 single faults drawn from a catalogue of 22 (unknown resource / annotation / dataset / key / data, begin or end beyond the text, inverted offset, complex selector with an invalid last member, nested complex selector, missing target - each combined with data that is new to the store -, valid target with an unknown set / key / data handle after new data, duplicate annotation / resource / dataset / data id, insert_data into an unknown set; valid requests at the edge of validity), one builder with several items of which one cannot be resolved (add_dataset with an unknown data id or key handle first / in the middle / last, under a new or an existing id; add_resource from a file that does not exist) and one batch (annotate_from_iter, annotate_from_file, ADD query) with the invalid item first, in the middle or last; the shadow model decides that the request must be refused; snapshot before vs after (observation with handles and all lookups, segmentation/find_text/related_text answers, hooked dump of every store and index), then the corrected request against a twin store replayed without the failure. distinct_nontrivial = distinct (fault, refused) and (fault, corrected) pairs observed".into();
    rep.assumptions = vec![
        "requests the library accepts although the model refuses them (or vice versa) are C03/C04's business: counted, the history is abandoned".into(),
        "run-time flags (changed, serialize mode) are not part of the snapshot".into(),
    ];
    let total: u64 = if p.thorough { 10000 } else { 600 };
    for k in p.cases(total) {
        rep.current_case = p.case_coord(k);
        rep.cases += 1;
        let mut rng = Rng::new(p.seed, "c14", k);
        let milestone = *rng.pick(&[100usize, 0, 3]);
        let shrink = rng.chance(1, 2);
        let mut cfg = GenCfg::default();
        cfg.hostile_ids = false;
        cfg.max_anns = 10;
        cfg.removals = rng.chance(1, 2);
        let nops = rng.range(5, if p.thorough { 26 } else { 18 }) as usize;
        let mut h = History::new(milestone, shrink);
        let mut g = Gen::new(cfg);
        let mut ok_ops: Vec<Op> = Vec::new();
        let mut alive = true;
        for _ in 0..nops {
            let op = g.gen_op(&mut rng, &h.model);
            let r = h.step(&op);
            if !r.agreement.in_step() {
                alive = false;
                break;
            }
            if matches!(r.agreement, Agreement::Ok) {
                ok_ops.push(op);
            }
        }
        if !alive {
            rep.count("history-ended-early");
            continue;
        }
        let cont = single_faults(rep, &mut rng, &mut h, &mut g, &mut ok_ops, milestone, shrink, 10);
        if !cont {
            h = twin_of(&ok_ops, milestone, shrink);
        }
        if !builder_fault(rep, &mut rng, &mut h, &mut g) {
            h = twin_of(&ok_ops, milestone, shrink);
        }
        batch_fault(rep, &mut rng, &mut h, &mut g, &p.workdir, k);
    }
    let _ = (execute, Outcome::Ok(None));
}
