//! C15 — STAM CSV round trip preserves structure, targets and the text of values.

use crate::c05::{compare, store_cfg};
use crate::gen::GenCfg;
use crate::hist::*;
use crate::model::{Op, Ref};
use crate::obs;
use crate::util::*;
use serde_json::{json, Value};
use stam::*;
use std::sync::atomic::Ordering;

/// what a second save must bring up to date: per dataset its keys and the (key, value text) of its data, the number of annotations, the texts
fn reduced(store: &AnnotationStore) -> Value {
    let mut sets = serde_json::Map::new();
    for s in store.datasets() {
        let mut keys: Vec<String> = s.keys().filter_map(|k| k.id().map(|x| x.to_string())).collect();
        keys.sort();
        let mut data: Vec<(String, String)> = s.data().map(|d| (d.key().id().unwrap_or("").to_string(), d.value().to_string())).collect();
        data.sort();
        sets.insert(s.id().unwrap_or("").to_string(), json!({"keys": keys, "data": data}));
    }
    let mut texts = serde_json::Map::new();
    for r in store.resources() {
        texts.insert(r.id().unwrap_or("").to_string(), json!(r.text()));
    }
    json!({"datasets": sets, "annotations": store.annotations().count(), "resources": texts})
}

/// save as STAM CSV, change the store a little, save again to the same files, load: the files must have followed the store
fn csv_incremental(rep: &mut Report, h: &mut History, dir: &str, rng: &mut Rng, cfg: GenCfg) {
    let _ = std::fs::remove_dir_all(dir);
    std::fs::create_dir_all(dir).expect("workdir");
    let path = format!("{}/inc.store.stam.csv", dir);
    if !matches!(guard(|| h.store.to_file(&path)), Ok(Ok(()))) {
        let _ = std::fs::remove_dir_all(dir);
        return; // judged by the plain round trip
    }
    let mut g = crate::gen::Gen::new(cfg);
    for _ in 0..60 {
        let _ = g.fresh_id(rng, "z");
    }
    let mut kinds: Vec<&'static str> = Vec::new();
    for _ in 0..rng.range(1, 4) {
        // removals of keys and data first of all: a key without data, a data item nobody uses
        let op = if rng.chance(1, 2) {
            let cands: Vec<(String, String, bool)> = h.model.sets.values().filter(|s| s.id != crate::model::TEXTVALIDATION_SET).flat_map(|s| s.keys.values().map(move |k| (s.id.clone(), k.id.clone(), s.data.values().any(|d| d.key == k.handle)))).collect();
            match cands.iter().find(|c| !c.2).or(cands.first()) {
                Some((set, key, _)) => Op::RemoveKey { set: Ref::Id(set.clone()), key: Ref::Id(key.clone()), strict: rng.chance(1, 2) },
                None => g.gen_op(rng, &h.model),
            }
        } else {
            g.gen_op(rng, &h.model)
        };
        if matches!(op, Op::AddResource { .. } | Op::AddDataset { .. } | Op::ProtectText(_)) {
            continue;
        }
        let sets_before = h.model.sets.len();
        let r = h.step(&op);
        if !r.agreement.in_step() {
            let _ = std::fs::remove_dir_all(dir);
            return;
        }
        if h.model.sets.len() > sets_before {
            // a dataset born after the switch to CSV has no file name and the writer says so ("must have a set filename for
            // CSV serialization to work"): a refusal, not a round trip; not what this stage is about
            rep.count("incremental/new-dataset-after-first-save(not judged)");
            let _ = std::fs::remove_dir_all(dir);
            return;
        }
        if matches!(r.agreement, Agreement::Ok) {
            kinds.push(op.kind());
        }
    }
    if kinds.is_empty() {
        let _ = std::fs::remove_dir_all(dir);
        return;
    }
    kinds.sort();
    kinds.dedup();
    rep.eval();
    rep.distinct(&format!("incremental|{}", kinds.join("+")));
    match guard(|| h.store.to_file(&path)) {
        Ok(Ok(())) => {}
        Ok(Err(e)) => {
            rep.violation(format!("C15/incremental/save-error/after:{}", kinds.join("+")), json!({"error": format!("{}", e), "history": h.replay_json()}));
            let _ = std::fs::remove_dir_all(dir);
            return;
        }
        Err(pn) => {
            rep.violation(format!("C15/incremental/save-panic/{}", pn.class()), json!({"panic": pn.msg, "at": pn.loc, "history": h.replay_json()}));
            let _ = std::fs::remove_dir_all(dir);
            return;
        }
    }
    let loaded = guard(|| AnnotationStore::from_file(&path, Config::default().with_debug(false)));
    let _ = std::fs::remove_dir_all(dir);
    match loaded {
        Ok(Ok(l)) => {
            let (a, b) = (reduced(&h.store), reduced(&l));
            if let Some((path, x, y)) = first_diff(&a, &b, "") {
                rep.violation(
                    format!("C15/incremental/after:{}/differs{}", kinds.join("+"), path_class(&path)),
                    json!({"path": path, "store": x, "loaded_after_second_save": y, "history": h.replay_json()}),
                );
            }
        }
        // the recorded temporary-id findings make some stores with gaps unloadable: the plain round trip reports those
        Ok(Err(_)) => rep.count("incremental/second-save-does-not-load"),
        Err(pn) => rep.violation(format!("C15/incremental/load-panic/{}", pn.class()), json!({"panic": pn.msg, "at": pn.loc, "history": h.replay_json()})),
    }
}

pub fn run(p: &Params, rep: &mut Report) {
    obs::VALUE_AS_TEXT.store(true, Ordering::Relaxed);
    rep.rule = "final states of seeded op-histories (ids without ';', all selector kinds incl. complex selectors with mixed sub-selectors, end-aligned and relative offsets, gaps) are saved with a .csv name (store manifest + annotations table + one table per dataset + one .txt per resource) and loaded again; the canonical observation with values reduced to their text must be equal: resources and texts, keys, data ids and value text, annotation ids, data references, targets (kinds, referenced items, absolute ranges, text). distinct_nontrivial = distinct (store shape, selector kinds present) tuples".into();
    rep.assumptions = vec![
        "value types are outside the claim (the format stores text): values are compared through Display on both sides".into(),
        "identifiers containing ';' are not generated".into(),
        "orphan text selections and the alignment (OffsetMode) of offsets are compared like in C05".into(),
    ];
    let total: u64 = if p.thorough { 8000 } else { 4000 };
    for k in p.cases(total) {
        rep.current_case = p.case_coord(k);
        rep.cases += 1;
        let mut rng = Rng::new(p.seed, "c15", k);
        let mut cfg = store_cfg(&mut rng);
        cfg.allow_semicolon = false;
        cfg.hostile_ids = rng.chance(1, 3);
        cfg.text_min = 1; // the CSV route keeps every resource in a stand-off .txt file (see C05 known finding for empty ones)
        let nops = rng.range(4, if p.thorough { 28 } else { 18 }) as usize;
        let mut h = random_history(&mut rng, cfg.clone(), nops, 100, true);
        if k % 3 == 2 {
            csv_incremental(rep, &mut h, &format!("{}/c15-inc-{}", p.workdir, k), &mut rng, cfg);
            continue;
        }
        let before = match obs::observe(&h.store, false, true) {
            Ok(o) => o,
            Err(_) => continue,
        };
        let mut kinds: Vec<&str> = h.model.anns.values().map(|a| a.target.kind()).collect();
        kinds.sort();
        kinds.dedup();
        rep.distinct(&format!("{}|{}", h.model.shape(), kinds.join(",")));
        let dir = format!("{}/c15-{}", p.workdir, k);
        let _ = std::fs::remove_dir_all(&dir);
        std::fs::create_dir_all(&dir).expect("workdir");
        let path = format!("{}/s.store.stam.csv", dir);
        rep.eval();
        let saved = guard(|| h.store.to_file(&path));
        match saved {
            Ok(Ok(())) => {}
            Ok(Err(e)) => {
                rep.violation(format!("C15/save-error/{}", normalise_msg(&format!("{}", e)).chars().take(80).collect::<String>()), json!({"error": format!("{}", e), "history": h.replay_json()}));
                let _ = std::fs::remove_dir_all(&dir);
                continue;
            }
            Err(pn) => {
                rep.violation(format!("C15/save-panic/{}", pn.class()), json!({"panic": pn.msg, "at": pn.loc, "history": h.replay_json()}));
                let _ = std::fs::remove_dir_all(&dir);
                continue;
            }
        }
        rep.eval();
        let loaded = guard(|| AnnotationStore::from_file(&path, Config::default().with_debug(false)));
        let files: Vec<String> = std::fs::read_dir(&dir).map(|d| d.filter_map(|e| e.ok()).map(|e| e.file_name().to_string_lossy().to_string()).collect()).unwrap_or_default();
        let annotations_csv = files.iter().find(|f| f.contains("annotations")).and_then(|f| std::fs::read_to_string(format!("{}/{}", dir, f)).ok());
        let _ = std::fs::remove_dir_all(&dir);
        let loaded = match loaded {
            Ok(Ok(s)) => s,
            Ok(Err(e)) => {
                let msg = format!("{}", e);
                // class: which selector kinds / shapes were in the store
                let dataless = h.model.anns.values().any(|a| a.data.is_empty());
                let gaps = h.model.anns.len() != h.model.next_ann || h.model.sets.values().any(|s| s.data.len() != s.next_data);
                if gaps && (msg.contains("IntIdError") || msg.contains("IdNotFoundError") || msg.contains("HandleError") || msg.contains("IncompleteError") || msg.contains("BuildError")) {
                    // root cause: id-less items are referenced by temporary id ('!A3'), but the CSV reader neither strips
                    // temporary ids nor reproduces the gaps left by removals, so the reference dangles or hits another item
                    rep.violation(
                        "C15/explained:temporary-id-reference-dangles-after-gaps",
                        json!({"error": msg, "history": h.replay_json()}),
                    );
                    continue;
                }
                rep.violation(
                    format!("C15/load-error/{}{}", normalise_msg(&msg).chars().take(70).collect::<String>(), if dataless { "/store-has-dataless-annotation" } else { "" }),
                    json!({"error": msg, "history": h.replay_json(), "annotations_csv": annotations_csv}),
                );
                continue;
            }
            Err(pn) => {
                rep.violation(format!("C15/load-panic/{}", pn.class()), json!({"panic": pn.msg, "at": pn.loc, "history": h.replay_json(), "annotations_csv": annotations_csv}));
                continue;
            }
        };
        match obs::observe(&loaded, false, true) {
            Ok(mut after) => {
                // root cause: the CSV reader keeps temporary ids ('!D3', '!A5') as public ids instead of stripping them
                let mut leaked = 0;
                for (list, sub) in [("annotations", None), ("datasets", Some("data"))] {
                    let n = before[list].as_array().map(|a| a.len()).unwrap_or(0);
                    for i in 0..n {
                        let mut fix = |b: &Value, a: &mut Value| {
                            if b["id"].is_null() {
                                if let Some(id) = a["id"].as_str() {
                                    let mut it = id.chars();
                                    if it.next() == Some('!') && it.next().map(|c| c.is_ascii_uppercase()).unwrap_or(false) && it.as_str().chars().all(|c| c.is_ascii_digit()) && !it.as_str().is_empty() {
                                        a["id"] = Value::Null;
                                        leaked += 1;
                                    }
                                }
                            }
                        };
                        match sub {
                            None => {
                                if let Some(a) = after[list].get_mut(i) {
                                    fix(&before[list][i], a);
                                }
                            }
                            Some(sub) => {
                                let m = before[list][i][sub].as_array().map(|a| a.len()).unwrap_or(0);
                                for j in 0..m {
                                    if let Some(a) = after[list].get_mut(i).and_then(|x| x[sub].get_mut(j)) {
                                        fix(&before[list][i][sub][j], a);
                                    }
                                }
                            }
                        }
                    }
                }
                if leaked > 0 {
                    rep.violation(
                        "C15/explained:temporary-ids-of-idless-items-become-public-ids",
                        json!({"items": leaked, "history": h.replay_json()}),
                    );
                }
                let gaps = h.model.anns.len() != h.model.next_ann || h.model.sets.values().any(|s| s.data.len() != s.next_data);
                if gaps {
                    // same root cause as the dangling case: a temporary id written for an id-less item is resolved by
                    // handle number in the reloaded store, whose numbering differs after gaps -> it silently hits another item
                    let b = crate::c05::strip_orphans(&before);
                    let a = crate::c05::strip_orphans(&after);
                    if let Some((path, x, y)) = first_diff(&b, &a, "") {
                        let pc = path_class(&path);
                        let reference = pc.starts_with("/annotations/*/data/") || pc.starts_with("/annotations/*/target/") || pc.starts_with("/annotations/*/text") || pc.starts_with("/annotations/*/resources") || pc.starts_with("/lookups/");
                        if reference {
                            rep.violation(
                                "C15/explained:temporary-id-reference-dangles-after-gaps",
                                json!({"path": path, "original": x, "reloaded": y, "history": h.replay_json()}),
                            );
                            continue;
                        }
                    }
                }
                compare(rep, "C15", "csv", &before, &after, &h, json!({"files": files}));
            }
            Err(pn) => rep.violation(format!("C15/observe-loaded-panic/{}", pn.class()), json!({"panic": pn.msg, "history": h.replay_json()})),
        }
        if k % 61 == 0 {
            rep.sample(json!({"case": k, "history": h.replay_json(), "files": files}));
        }
    }
}
