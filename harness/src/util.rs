//! Shared plumbing: PRNG, report accumulator, panic capture.

use serde_json::{json, Value};
use std::cell::RefCell;
use std::collections::hash_map::DefaultHasher;
use std::collections::{BTreeMap, BTreeSet};
use std::hash::{Hash, Hasher};
use std::panic::{catch_unwind, AssertUnwindSafe};

/// SplitMix64 — tiny, deterministic, good enough for workload generation
#[derive(Clone)]
pub struct Rng(pub u64);

impl Rng {
    pub fn new(seed: u64, stream: &str, index: u64) -> Self {
        let mut h = DefaultHasher::new();
        stream.hash(&mut h);
        let mut r = Rng(seed
            .wrapping_mul(0x9E3779B97F4A7C15)
            ^ h.finish()
            ^ index.wrapping_mul(0xD1B54A32D192ED03));
        r.next();
        r.next();
        r
    }
    pub fn next(&mut self) -> u64 {
        self.0 = self.0.wrapping_add(0x9E3779B97F4A7C15);
        let mut z = self.0;
        z = (z ^ (z >> 30)).wrapping_mul(0xBF58476D1CE4E5B9);
        z = (z ^ (z >> 27)).wrapping_mul(0x94D049BB133111EB);
        z ^ (z >> 31)
    }
    /// uniform in 0..n (n>0)
    pub fn below(&mut self, n: usize) -> usize {
        if n == 0 {
            0
        } else {
            (self.next() % n as u64) as usize
        }
    }
    /// uniform in lo..=hi
    pub fn range(&mut self, lo: i64, hi: i64) -> i64 {
        if hi <= lo {
            lo
        } else {
            lo + (self.next() % ((hi - lo + 1) as u64)) as i64
        }
    }
    /// true with probability num/den
    pub fn chance(&mut self, num: u64, den: u64) -> bool {
        self.next() % den < num
    }
    pub fn pick<'a, T>(&mut self, items: &'a [T]) -> &'a T {
        &items[self.below(items.len())]
    }
    pub fn pick_weighted(&mut self, weights: &[u32]) -> usize {
        let total: u64 = weights.iter().map(|w| *w as u64).sum();
        if total == 0 {
            return 0;
        }
        let mut x = self.next() % total;
        for (i, w) in weights.iter().enumerate() {
            if x < *w as u64 {
                return i;
            }
            x -= *w as u64;
        }
        weights.len() - 1
    }
    pub fn shuffle<T>(&mut self, items: &mut [T]) {
        for i in (1..items.len()).rev() {
            let j = self.below(i + 1);
            items.swap(i, j);
        }
    }
}

pub fn hash_str(s: &str) -> u64 {
    let mut h = DefaultHasher::new();
    s.hash(&mut h);
    h.finish()
}

#[derive(Clone)]
pub struct Violation {
    pub sig: String,
    pub detail: Value,
    pub count: u64,
    pub case: Value,
}

/// What one shard of a monitor observed
pub struct Report {
    pub prop: String,
    pub evaluations: u64,
    pub cases: u64,
    pub distinct: BTreeSet<u64>,
    pub samples: Vec<Value>,
    pub max_samples: usize,
    pub violations: BTreeMap<String, Violation>,
    pub hist: BTreeMap<String, u64>,
    pub notes: BTreeSet<String>,
    pub exhaustive: bool,
    pub inconclusive: Option<String>,
    pub rule: String,
    pub assumptions: Vec<String>,
    /// coordinates of the case being run (for replay)
    pub current_case: Value,
    pub extra: BTreeMap<String, Value>,
}

impl Report {
    pub fn new(prop: &str) -> Self {
        Report {
            prop: prop.to_string(),
            evaluations: 0,
            cases: 0,
            distinct: BTreeSet::new(),
            samples: Vec::new(),
            max_samples: 4,
            violations: BTreeMap::new(),
            hist: BTreeMap::new(),
            notes: BTreeSet::new(),
            exhaustive: false,
            inconclusive: None,
            rule: String::new(),
            assumptions: Vec::new(),
            current_case: Value::Null,
            extra: BTreeMap::new(),
        }
    }
    pub fn eval(&mut self) {
        self.evaluations += 1;
    }
    pub fn evals(&mut self, n: u64) {
        self.evaluations += n;
    }
    /// register a distinct non-trivial case class
    pub fn distinct(&mut self, key: &str) {
        self.distinct.insert(hash_str(key));
    }
    pub fn count(&mut self, key: &str) {
        *self.hist.entry(key.to_string()).or_insert(0) += 1;
    }
    pub fn count_n(&mut self, key: &str, n: u64) {
        *self.hist.entry(key.to_string()).or_insert(0) += n;
    }
    pub fn sample(&mut self, v: Value) {
        if self.samples.len() < self.max_samples {
            self.samples.push(v);
        }
    }
    pub fn note(&mut self, s: &str) {
        if self.notes.len() < 50 {
            self.notes.insert(s.to_string());
        }
    }
    pub fn violation(&mut self, sig: impl Into<String>, detail: Value) {
        let sig: String = sig
            .into()
            .chars()
            .map(|c| if c.is_whitespace() { '_' } else { c })
            .collect();
        let case = self.current_case.clone();
        self.violations
            .entry(sig.clone())
            .and_modify(|v| v.count += 1)
            .or_insert(Violation {
                sig,
                detail,
                count: 1,
                case,
            });
    }
    pub fn to_json(&self) -> Value {
        json!({
            "property": self.prop,
            "evaluations": self.evaluations,
            "cases": self.cases,
            "distinct": self.distinct.iter().collect::<Vec<_>>(),
            "samples": self.samples,
            "violations": self.violations.values().map(|v| json!({
                "sig": v.sig, "detail": v.detail, "count": v.count, "case": v.case
            })).collect::<Vec<_>>(),
            "hist": self.hist,
            "notes": self.notes,
            "exhaustive": self.exhaustive,
            "inconclusive": self.inconclusive,
            "rule": self.rule,
            "assumptions": self.assumptions,
            "extra": self.extra,
        })
    }
}

thread_local! {
    static LAST_PANIC: RefCell<Option<(String, String)>> = RefCell::new(None);
}

/// Install a quiet panic hook that records message and location per thread
pub fn install_panic_hook() {
    std::panic::set_hook(Box::new(|info| {
        let msg = if let Some(s) = info.payload().downcast_ref::<&str>() {
            s.to_string()
        } else if let Some(s) = info.payload().downcast_ref::<String>() {
            s.clone()
        } else {
            "<non-string panic payload>".to_string()
        };
        let loc = info
            .location()
            .map(|l| format!("{}:{}", l.file(), l.line()))
            .unwrap_or_default();
        if std::env::var("VERIF_LOUD").is_ok() {
            eprintln!("panic: {} at {}", msg, loc);
        }
        LAST_PANIC.with(|p| *p.borrow_mut() = Some((msg, loc)));
    }));
}

#[derive(Debug, Clone)]
pub struct Panic {
    pub msg: String,
    pub loc: String,
}

impl Panic {
    /// stable class: source file (no line) + message with digits and quoted payloads normalised
    pub fn class(&self) -> String {
        let file = self.loc.split(':').next().unwrap_or("");
        let file = file.rsplit("/src/").next().unwrap_or(file);
        format!("{}/{}", file, normalise_msg(&self.msg))
    }
}

pub fn normalise_msg(msg: &str) -> String {
    let mut out = String::new();
    let mut in_quote = false;
    let mut last_digit = false;
    for c in msg.chars().take(200) {
        if c == '"' || c == '`' {
            in_quote = !in_quote;
            out.push(c);
            if in_quote {
                out.push('…');
            }
            last_digit = false;
            continue;
        }
        if in_quote {
            continue;
        }
        if c.is_ascii_digit() {
            if !last_digit {
                out.push('N');
            }
            last_digit = true;
        } else {
            out.push(c);
            last_digit = false;
        }
    }
    out.truncate(120);
    out
}

/// Run `f`, catching panics (the library is 100 % safe Rust, so unwinding leaves memory sound)
pub fn guard<T>(f: impl FnOnce() -> T) -> Result<T, Panic> {
    LAST_PANIC.with(|p| *p.borrow_mut() = None);
    match catch_unwind(AssertUnwindSafe(f)) {
        Ok(v) => Ok(v),
        Err(_) => {
            let (msg, loc) = LAST_PANIC
                .with(|p| p.borrow_mut().take())
                .unwrap_or_else(|| ("<unknown>".into(), "".into()));
            Err(Panic { msg, loc })
        }
    }
}

/// Parameters of one monitor invocation
#[derive(Clone, Debug)]
pub struct Params {
    pub prop: String,
    pub seed: u64,
    pub shard: usize,
    pub nshards: usize,
    pub thorough: bool,
    pub only_case: Option<u64>,
    pub workdir: String,
    pub budget: Option<u64>,
    pub variant: Option<String>,
}

impl Params {
    /// iterate the case indices of this shard out of `total`
    pub fn cases(&self, total: u64) -> Vec<u64> {
        let total = self.budget.unwrap_or(total);
        if let Some(k) = self.only_case {
            return vec![k];
        }
        (0..total)
            .filter(|k| (*k as usize) % self.nshards == self.shard)
            .collect()
    }
    pub fn case_coord(&self, index: u64) -> Value {
        json!({"seed": self.seed, "tier": if self.thorough {"thorough"} else {"quick"}, "index": index, "variant": self.variant})
    }
}

pub fn first_diff(a: &Value, b: &Value, path: &str) -> Option<(String, Value, Value)> {
    match (a, b) {
        (Value::Object(x), Value::Object(y)) => {
            let keys: BTreeSet<&String> = x.keys().chain(y.keys()).collect();
            for k in keys {
                let p = format!("{}/{}", path, k);
                match (x.get(k), y.get(k)) {
                    (Some(u), Some(v)) => {
                        if let Some(d) = first_diff(u, v, &p) {
                            return Some(d);
                        }
                    }
                    (u, v) => {
                        return Some((
                            p,
                            u.cloned().unwrap_or(Value::String("<absent>".into())),
                            v.cloned().unwrap_or(Value::String("<absent>".into())),
                        ))
                    }
                }
            }
            None
        }
        (Value::Array(x), Value::Array(y)) => {
            for i in 0..x.len().max(y.len()) {
                let p = format!("{}/{}", path, i);
                match (x.get(i), y.get(i)) {
                    (Some(u), Some(v)) => {
                        if let Some(d) = first_diff(u, v, &p) {
                            return Some(d);
                        }
                    }
                    (u, v) => {
                        return Some((
                            p,
                            u.cloned().unwrap_or(Value::String("<absent>".into())),
                            v.cloned().unwrap_or(Value::String("<absent>".into())),
                        ))
                    }
                }
            }
            None
        }
        _ => {
            if a == b {
                None
            } else {
                Some((path.to_string(), a.clone(), b.clone()))
            }
        }
    }
}

