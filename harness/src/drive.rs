//! Applies abstract operations to the real store and records the outcome at the public-API boundary.

use crate::model::*;
use crate::util::{guard, Panic};
use serde_json::{json, Value};
use stam::*;

#[derive(Debug, Clone)]
pub enum Outcome {
    Ok(Option<usize>),
    Err(String),
    Panic(Panic),
}

impl Outcome {
    pub fn is_ok(&self) -> bool {
        matches!(self, Outcome::Ok(_))
    }
    pub fn to_json(&self) -> Value {
        match self {
            Outcome::Ok(h) => json!({"ok": h}),
            Outcome::Err(e) => json!({"err": e.chars().take(160).collect::<String>()}),
            Outcome::Panic(p) => json!({"panic": p.msg, "at": p.loc}),
        }
    }
}

pub fn bi<T: Storable>(r: &Ref) -> BuildItem<'static, T> {
    match r {
        Ref::Id(s) => BuildItem::Id(s.clone()),
        Ref::Handle(h) => BuildItem::Handle(T::HandleType::new(*h)),
        Ref::None => BuildItem::None,
    }
}

/// which calling form to use for a reference: 0 = plain (&str / bare handle), 1 = owned String, 2 = BuildItem
fn form(r: &Ref) -> usize {
    match r {
        Ref::Id(s) => s.bytes().fold(s.len(), |a, b| a.wrapping_add(b as usize)) % 3,
        Ref::Handle(h) => h % 2,
        Ref::None => 2,
    }
}

pub fn cursor(c: Cur) -> Cursor {
    match c {
        Cur::B(x) => Cursor::BeginAligned(x),
        Cur::E(x) => Cursor::EndAligned(x),
    }
}

pub fn offset(o: &Off) -> Offset {
    Offset::new(cursor(o.begin), cursor(o.end))
}

/// simple selectors through the constructor functions
fn selector_fn(s: &SelReq) -> SelectorBuilder<'static> {
    match s {
        SelReq::Text(r, o) => SelectorBuilder::textselector(bi::<TextResource>(r), offset(o)),
        SelReq::Ann(a, o) => SelectorBuilder::annotationselector(bi::<Annotation>(a), o.as_ref().map(offset)),
        SelReq::Res(r) => SelectorBuilder::resourceselector(bi::<TextResource>(r)),
        SelReq::Set(s) => SelectorBuilder::datasetselector(bi::<AnnotationDataSet>(s)),
        SelReq::Key(s, k) => SelectorBuilder::datakeyselector(bi::<AnnotationDataSet>(s), bi::<DataKey>(k)),
        SelReq::Data(s, d) => SelectorBuilder::annotationdataselector(bi::<AnnotationDataSet>(s), bi::<AnnotationData>(d)),
        other => selector(other),
    }
}

pub fn selector(s: &SelReq) -> SelectorBuilder<'static> {
    match s {
        // complex selectors with an even number of members (and simple ones inside them) go through the constructor functions
        // of SelectorBuilder, the others through the enum variants: both are public ways to say the same thing
        SelReq::Text(r, o) => SelectorBuilder::TextSelector(bi(r), offset(o)),
        SelReq::Ann(a, o) => SelectorBuilder::AnnotationSelector(bi(a), o.as_ref().map(offset)),
        SelReq::Res(r) => SelectorBuilder::ResourceSelector(bi(r)),
        SelReq::Set(s) => SelectorBuilder::DataSetSelector(bi(s)),
        SelReq::Key(s, k) => SelectorBuilder::DataKeySelector(bi(s), bi(k)),
        SelReq::Data(s, d) => SelectorBuilder::AnnotationDataSelector(bi(s), bi(d)),
        SelReq::Multi(v) if v.len() % 2 == 0 => SelectorBuilder::multiselector(v.iter().map(selector_fn)),
        SelReq::Composite(v) if v.len() % 2 == 0 => SelectorBuilder::compositeselector(v.iter().map(selector_fn)),
        SelReq::Directional(v) if v.len() % 2 == 0 => SelectorBuilder::directionalselector(v.iter().map(selector_fn)),
        SelReq::Multi(v) => SelectorBuilder::MultiSelector(v.iter().map(selector).collect()),
        SelReq::Composite(v) => SelectorBuilder::CompositeSelector(v.iter().map(selector).collect()),
        SelReq::Directional(v) => SelectorBuilder::DirectionalSelector(v.iter().map(selector).collect()),
    }
}

pub fn databuilder(d: &DataReq) -> AnnotationDataBuilder<'static> {
    AnnotationDataBuilder::new()
        .with_id(bi(&d.id))
        .with_dataset(bi(&d.set))
        .with_key(bi(&d.key))
        .with_value(d.value.clone())
}

pub fn annotationbuilder(req: &AnnReq) -> AnnotationBuilder<'static> {
    let mut b = AnnotationBuilder::new();
    if let Some(id) = &req.id {
        b = b.with_id(id.clone());
    }
    if let Some(t) = &req.target {
        b = b.with_target(selector(t));
    }
    for d in &req.data {
        b = b.with_data_builder(databuilder(d));
    }
    b
}

fn res<T>(r: Result<Result<T, StamError>, Panic>, f: impl FnOnce(T) -> Option<usize>) -> Outcome {
    match r {
        Ok(Ok(v)) => Outcome::Ok(f(v)),
        Ok(Err(e)) => Outcome::Err(format!("{}", e)),
        Err(p) => Outcome::Panic(p),
    }
}

pub fn pmode(m: PMode) -> TextValidationMode {
    match m {
        PMode::Checksum => TextValidationMode::Checksum,
        PMode::Text => TextValidationMode::Text,
        PMode::Both => TextValidationMode::Both,
        PMode::Auto => TextValidationMode::Auto,
    }
}

/// Invoke the operation on the real store
pub fn execute(store: &mut AnnotationStore, op: &Op) -> Outcome {
    match op {
        Op::AddResource { id, text } => res(
            guard(|| store.add_resource(TextResourceBuilder::new().with_id(id.clone()).with_text(text.clone()))),
            |h| Some(h.as_usize()),
        ),
        Op::AddDataset { id, items } => {
            let mut b = AnnotationDataSetBuilder::new().with_id(id.clone());
            for (k, v, did) in items {
                b = match did {
                    Some(did) => b.with_key_value_id(BuildItem::Id(k.clone()), v.clone(), BuildItem::Id(did.clone())),
                    None => b.with_key_value(BuildItem::Id(k.clone()), v.clone()),
                };
            }
            res(guard(|| store.add_dataset(b)), |h| Some(h.as_usize()))
        }
        Op::Annotate(req) => {
            let b = annotationbuilder(req);
            res(guard(|| store.annotate(b)), |h| Some(h.as_usize()))
        }
        Op::InsertData(d) => {
            let b = databuilder(d);
            res(guard(|| store.insert_data(b)), |(_, h)| Some(h.as_usize()))
        }
        // the same request in the forms a caller can use: &str, String, a bare handle, or a BuildItem (chosen by the shape of the reference, so replays are stable)
        Op::RemoveAnnotation(r) => match (r, form(r)) {
            (Ref::Id(s), 0) => res(guard(|| store.remove_annotation(s.as_str())), |_| None),
            (Ref::Id(s), 1) => res(guard(|| store.remove_annotation(s.clone())), |_| None),
            (Ref::Handle(h), 0) => res(guard(|| store.remove_annotation(AnnotationHandle::new(*h))), |_| None),
            _ => res(guard(|| store.remove_annotation(bi::<Annotation>(r))), |_| None),
        },
        Op::RemoveData { set, data, strict } => res(
            guard(|| store.remove_data(bi::<AnnotationDataSet>(set), bi::<AnnotationData>(data), *strict)),
            |_| None,
        ),
        Op::RemoveKey { set, key, strict } => res(
            guard(|| store.remove_key(bi::<AnnotationDataSet>(set), bi::<DataKey>(key), *strict)),
            |_| None,
        ),
        Op::RemoveResource(r) => match (r, form(r)) {
            (Ref::Id(s), 0) => res(guard(|| store.remove_resource(s.as_str())), |_| None),
            (Ref::Id(s), 1) => res(guard(|| store.remove_resource(s.clone())), |_| None),
            (Ref::Handle(h), 0) => res(guard(|| store.remove_resource(TextResourceHandle::new(*h))), |_| None),
            _ => res(guard(|| store.remove_resource(bi::<TextResource>(r))), |_| None),
        },
        Op::RemoveDataset(r) => match (r, form(r)) {
            (Ref::Id(s), 0) => res(guard(|| store.remove_dataset(s.as_str())), |_| None),
            (Ref::Id(s), 1) => res(guard(|| store.remove_dataset(s.clone())), |_| None),
            (Ref::Handle(h), 0) => res(guard(|| store.remove_dataset(AnnotationDataSetHandle::new(*h))), |_| None),
            _ => res(guard(|| store.remove_dataset(bi::<AnnotationDataSet>(r))), |_| None),
        },
        Op::ProtectText(m) => res(guard(|| store.protect_text(pmode(*m))), |_| None),
        Op::QueryDelete(kind, id) => {
            // ANNOTATION goes through STAMQL text (the only result type the DELETE grammar accepts), the other two
            // through a programmatically built query
            let q = format!("DELETE ANNOTATION ?x {{ SELECT ANNOTATION ?x WHERE ID \"{}\"; }}", id);
            res(
                guard(|| -> Result<(), StamError> {
                    let query: Query = match kind {
                        'A' => q.as_str().try_into()?,
                        'R' => Query::new(QueryType::Delete, Some(Type::TextResource), Some("x")).with_subquery(
                            Query::new(QueryType::Select, Some(Type::TextResource), Some("x")).with_constraint(Constraint::Id(id.as_str())),
                        ),
                        _ => Query::new(QueryType::Delete, Some(Type::AnnotationDataSet), Some("x")).with_subquery(
                            Query::new(QueryType::Select, Some(Type::AnnotationDataSet), Some("x")).with_constraint(Constraint::Id(id.as_str())),
                        ),
                    };
                    let iter = store.query_mut(query)?;
                    for _ in iter {}
                    Ok(())
                }),
                |_| None,
            )
        }
    }
}

pub fn new_store(milestone: usize, shrink: bool) -> AnnotationStore {
    AnnotationStore::new(
        Config::default()
            .with_debug(false)
            .with_milestone_interval(milestone)
            .with_shrink_to_fit(shrink),
    )
    .with_id("verif")
}
