//! A history: the real store and the shadow model driven in lock step, with an event log at the API boundary.

use crate::drive::{execute, new_store, Outcome};
use crate::model::*;
use crate::util::Panic;
use serde_json::{json, Value};
use stam::{AnnotationStore, Config, Configurable};

#[derive(Debug, Clone)]
pub enum Agreement {
    /// both agree the operation succeeded (handles agree where predicted)
    Ok,
    /// both agree the operation was refused
    Refused,
    /// the library refused a request the documentation says is valid
    RealErrModelOk(String),
    /// the library accepted a request the documentation says must be refused
    RealOkModelErr(&'static str),
    /// the new/returned handle is not the one the model predicts (dedup, monotone handles)
    Handle { got: Option<usize>, want: Option<usize> },
    Panic(Panic),
    /// the documentation does not settle the outcome
    Unspecified(&'static str),
}

impl Agreement {
    pub fn in_step(&self) -> bool {
        matches!(self, Agreement::Ok | Agreement::Refused)
    }
    pub fn class(&self) -> String {
        match self {
            Agreement::Ok => "ok".into(),
            Agreement::Refused => "refused".into(),
            Agreement::RealErrModelOk(_) => "refuses-valid".into(),
            Agreement::RealOkModelErr(w) => format!("accepts-invalid/{}", w),
            Agreement::Handle { .. } => "unexpected-handle".into(),
            Agreement::Panic(p) => format!("panic/{}", p.class()),
            Agreement::Unspecified(w) => format!("unspecified/{}", w),
        }
    }
}

pub struct StepResult {
    pub outcome: Outcome,
    pub pred: Pred,
    pub effect: Effect,
    pub agreement: Agreement,
}

pub struct History {
    pub store: AnnotationStore,
    pub model: Model,
    /// call/return events in order (what the monitors read back)
    pub log: Vec<Value>,
    pub ops: Vec<Op>,
    pub ended: Option<String>,
}

impl History {
    pub fn new(milestone: usize, shrink: bool) -> Self {
        History { store: new_store(milestone, shrink), model: Model::new(), log: Vec::new(), ops: Vec::new(), ended: None }
    }

    /// a store in which temporary ids are switched off (`strip_temp_ids(false)`), configured at construction or afterwards
    pub fn new_no_temp_ids(milestone: usize, shrink: bool, via_with_config: bool) -> Self {
        let cfg = Config::default().with_debug(false).with_milestone_interval(milestone).with_shrink_to_fit(shrink).with_strip_temp_ids(false);
        let store = if via_with_config { AnnotationStore::default().with_config(cfg).with_id("verif") } else { AnnotationStore::new(cfg).with_id("verif") };
        let mut model = Model::new();
        model.no_temp_ids = true;
        History { store, model, log: Vec::new(), ops: Vec::new(), ended: None }
    }

    pub fn step(&mut self, op: &Op) -> StepResult {
        let n = self.ops.len();
        self.log.push(json!({"n": n, "call": op.to_json()}));
        let mut next = self.model.clone();
        let (pred, effect) = next.apply(op);
        let outcome = execute(&mut self.store, op);
        self.log.push(json!({"n": n, "return": outcome.to_json(), "model": format!("{:?}", pred)}));
        self.ops.push(op.clone());
        let agreement = match (&outcome, &pred) {
            (Outcome::Panic(p), _) => Agreement::Panic(p.clone()),
            (Outcome::Ok(got), Pred::Ok(want)) => {
                if want.is_some() && got != want {
                    Agreement::Handle { got: *got, want: *want }
                } else {
                    self.model = next;
                    Agreement::Ok
                }
            }
            (Outcome::Err(_), Pred::Err(_)) => Agreement::Refused,
            (Outcome::Err(e), Pred::Ok(_)) => Agreement::RealErrModelOk(e.clone()),
            (Outcome::Ok(_), Pred::Err(w)) => Agreement::RealOkModelErr(w),
            (_, Pred::Unspecified(w)) => Agreement::Unspecified(w),
        };
        if !agreement.in_step() {
            self.ended = Some(agreement.class());
        }
        StepResult { outcome, pred, effect, agreement }
    }

    pub fn replay_json(&self) -> Value {
        json!({"ops": self.ops.iter().map(|o| o.to_json()).collect::<Vec<_>>()})
    }

    /// the last few events of the log (for violation details)
    pub fn tail(&self, n: usize) -> Value {
        let start = self.log.len().saturating_sub(n);
        Value::Array(self.log[start..].to_vec())
    }
}

/// classify how two JSON values differ (for signatures)
pub fn diff_kind(model: &Value, real: &Value) -> &'static str {
    match (model, real) {
        (Value::Array(m), Value::Array(r)) => {
            let ms: Vec<String> = m.iter().map(|x| x.to_string()).collect();
            let rs: Vec<String> = r.iter().map(|x| x.to_string()).collect();
            let mut rsorted = rs.clone();
            rsorted.sort();
            let mut rdedup = rsorted.clone();
            rdedup.dedup();
            let mut msorted = ms.clone();
            msorted.sort();
            if rdedup.len() != rsorted.len() && {
                let mut md = msorted.clone();
                md.dedup();
                md.len() == msorted.len()
            } {
                return "duplicate";
            }
            if msorted == rsorted {
                return "order";
            }
            let missing = ms.iter().any(|x| !rs.contains(x));
            let extra = rs.iter().any(|x| !ms.contains(x));
            match (missing, extra) {
                (true, false) => "missing",
                (false, true) => "extra",
                _ => "differs",
            }
        }
        (Value::String(m), _) if m == "<absent>" => "extra",
        (_, Value::String(r)) if r == "<absent>" => "missing",
        _ => "differs",
    }
}

const VOCAB: [&str; 37] = ["resources_as_metadata", 
    "lookups", "resources", "datasets", "annotations", "keys", "data", "textselections", "annotations_len", "annotations_count",
    "annotations_as_metadata", "annotations_in_targets", "annotations_in_targets_max", "target", "text", "id", "name", "value", "key",
    "sub", "k", "res", "b", "e", "mode", "a", "set", "h", "annotations_handles_differs", "t", "v", "off", "changed", "substores",
    "filename", "positionindex", "textlen",
];

/// diff path -> stable class: item names and indices become `*`
pub fn path_class(path: &str) -> String {
    path.split('/')
        .map(|c| if c.is_empty() || VOCAB.contains(&c) { c } else { "*" })
        .collect::<Vec<_>>()
        .join("/")
}

pub fn panic_of(p: &Panic) -> Value {
    json!({"panic": p.msg, "at": p.loc})
}

/// run a seeded history of valid operations (ends early on the first disagreement with the model)
pub fn random_history(rng: &mut crate::util::Rng, cfg: crate::gen::GenCfg, nops: usize, milestone: usize, shrink: bool) -> History {
    let mut h = History::new(milestone, shrink);
    let mut g = crate::gen::Gen::new(cfg);
    for _ in 0..nops {
        let op = g.gen_op(rng, &h.model);
        let r = h.step(&op);
        if !r.agreement.in_step() {
            break;
        }
    }
    h
}
