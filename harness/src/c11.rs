//! C11 — CBOR round trip preserves the store and all of its indices (handles and reverse indices are stored, not rebuilt).

use crate::c05::store_cfg;
use crate::c12::answers;
use crate::hist::*;
use crate::obs;
use crate::util::*;
use serde_json::{json, Value};
use stam::*;

/// run-time-only fields that are documented not to be persisted
fn strip_volatile(v: &mut Value) {
    match v {
        Value::Object(m) => {
            m.remove("changed");
            m.remove("serialize_mode");
            for (_, x) in m.iter_mut() {
                strip_volatile(x);
            }
        }
        Value::Array(a) => {
            for x in a.iter_mut() {
                strip_volatile(x);
            }
        }
        _ => {}
    }
}

fn hj(h: &History, extra: &Value) -> Value {
    let mut j = h.replay_json();
    if !extra.is_null() {
        j["then"] = extra.clone();
    }
    j
}

pub fn run(p: &Params, rep: &mut Report) {
    rep.rule = "final states of seeded op-histories (removals -> gaps, protect_text, all selector kinds, id-less items) are saved with a .cbor name and loaded again; compared: the hooked dump of every store, id map, reverse index and position index entry by entry, the full canonical observation WITH handles and all reverse lookups, segmentation/find_text/related_text answers, the rows of 8 seeded queries per store, and the STAM JSON serialisation of both stores under an explicit JSON config. distinct_nontrivial = distinct (store shape, has-gaps, shrink_to_fit on load) tuples".into();
    rep.assumptions = vec!["`changed` flags, the serialize-mode cell and the caller-supplied debug/shrink_to_fit settings are run-time state and excluded from the dump comparison".into()];
    let total: u64 = if p.thorough { 10000 } else { 5000 };
    for k in p.cases(total) {
        rep.current_case = p.case_coord(k);
        rep.cases += 1;
        let mut rng = Rng::new(p.seed, "c11", k);
        let cfg = store_cfg(&mut rng);
        let nops = rng.range(4, if p.thorough { 32 } else { 22 }) as usize;
        let milestone = *rng.pick(&[100usize, 3, 0]);
        let shrink0 = rng.chance(1, 2);
        let mut h = random_history(&mut rng, cfg, nops, milestone, shrink0);
        // now and then an annotation that names the same target twice (the model does not cover it; the comparison is
        // between the saved and the loaded store): its reverse-index entries are repeated and must come back repeated
        let mut extra = Value::Null;
        if rng.chance(1, 4) {
            let rid = h.store.resources().next().and_then(|r| r.id().map(|s| s.to_string()));
            let len = h.store.resources().next().map(|r| r.textlen()).unwrap_or(0);
            if let Some(rid) = rid {
                let (b, e) = crate::gen::gen_range(&mut rng, len);
                let (what, target) = match rng.below(3) {
                    0 => ("Multi[Text,Text]", SelectorBuilder::multiselector(vec![SelectorBuilder::textselector(rid.clone(), Offset::simple(b, e)), SelectorBuilder::textselector(rid.clone(), Offset::simple(b, e))])),
                    1 => ("Composite[Resource,Resource]", SelectorBuilder::compositeselector(vec![SelectorBuilder::resourceselector(rid.clone()), SelectorBuilder::resourceselector(rid.clone())])),
                    _ => ("Directional[Text,Resource,Text]", SelectorBuilder::directionalselector(vec![SelectorBuilder::textselector(rid.clone(), Offset::simple(b, e)), SelectorBuilder::resourceselector(rid.clone()), SelectorBuilder::textselector(rid.clone(), Offset::simple(b, e))])),
                };
                let ok = guard(|| h.store.annotate(AnnotationBuilder::new().with_id("same-target-twice").with_target(target).with_data("twice", "k", "v"))).map(|r| r.is_ok()).unwrap_or(false);
                extra = json!({"then_annotate": what, "resource": rid, "range": [b, e], "accepted": ok});
                rep.count(&format!("same-target-twice/{}/{}", what, if ok { "accepted" } else { "refused" }));
            }
        }
        let dir = format!("{}/c11-{}", p.workdir, k);
        let _ = std::fs::remove_dir_all(&dir);
        std::fs::create_dir_all(&dir).expect("workdir");
        let path = format!("{}/s.store.stam.cbor", dir);
        rep.eval();
        match guard(|| h.store.to_file(&path)) {
            Ok(Ok(())) => {}
            Ok(Err(e)) => {
                rep.violation(format!("C11/save-error/{}", normalise_msg(&format!("{}", e)).chars().take(80).collect::<String>()), json!({"error": format!("{}", e), "history": hj(&h, &extra)}));
                let _ = std::fs::remove_dir_all(&dir);
                continue;
            }
            Err(pn) => {
                rep.violation(format!("C11/save-panic/{}", pn.class()), json!({"panic": pn.msg, "at": pn.loc, "history": hj(&h, &extra)}));
                let _ = std::fs::remove_dir_all(&dir);
                continue;
            }
        }
        let shrink = rng.chance(1, 2);
        rep.eval();
        let loaded = match guard(|| AnnotationStore::from_file(&path, Config::default().with_debug(false).with_shrink_to_fit(shrink))) {
            Ok(Ok(s)) => s,
            Ok(Err(e)) => {
                rep.violation(format!("C11/load-error/{}", normalise_msg(&format!("{}", e)).chars().take(80).collect::<String>()), json!({"error": format!("{}", e), "history": hj(&h, &extra)}));
                let _ = std::fs::remove_dir_all(&dir);
                continue;
            }
            Err(pn) => {
                rep.violation(format!("C11/load-panic/{}", pn.class()), json!({"panic": pn.msg, "at": pn.loc, "history": hj(&h, &extra)}));
                let _ = std::fs::remove_dir_all(&dir);
                continue;
            }
        };
        let _ = std::fs::remove_dir_all(&dir);
        let gaps = h.model.anns.len() != h.model.next_ann || h.model.resources.len() != h.model.next_res || h.model.sets.len() != h.model.next_set;
        rep.distinct(&format!("{}|{}|{}", h.model.shape(), gaps, shrink));
        // (1) indices entry by entry
        #[cfg(feature = "dump")]
        {
            rep.eval();
            let mut a = h.store.verif_dump();
            let mut b = loaded.verif_dump();
            strip_volatile(&mut a);
            strip_volatile(&mut b);
            if let Some((path, x, y)) = first_diff(&a, &b, "") {
                let top = path.split('/').nth(1).unwrap_or("").to_string();
                let sub: String = path.split('/').skip(2).filter(|c| !c.chars().all(|ch| ch.is_ascii_digit())).collect::<Vec<_>>().join("/");
                rep.violation(
                    format!("C11/dump-differs/{}/{}", top, sub),
                    json!({"path": path, "saved": x, "loaded": y, "history": hj(&h, &extra)}),
                );
            }
        }
        #[cfg(not(feature = "dump"))]
        rep.note("dump_unavailable: index-by-index comparison skipped");
        // (1b) lookups by temporary id answer alike (which ids resolve is configuration that travels with the id maps)
        {
            rep.eval();
            let probe = |st: &AnnotationStore| -> Result<Vec<(String, bool)>, Panic> {
                guard(|| {
                    let mut v = Vec::new();
                    for i in 0..h.model.next_ann.min(12) {
                        let id = format!("!A{}", i);
                        v.push((id.clone(), st.annotation(id.as_str()).is_some()));
                    }
                    for i in 0..h.model.next_res.min(6) {
                        let id = format!("!R{}", i);
                        v.push((id.clone(), st.resource(id.as_str()).is_some()));
                    }
                    for i in 0..h.model.next_set.min(6) {
                        let id = format!("!S{}", i);
                        v.push((id.clone(), st.dataset(id.as_str()).is_some()));
                        if let Some(ds) = st.dataset(AnnotationDataSetHandle::new(i)) {
                            for k in 0..4 {
                                let kid = format!("!K{}", k);
                                v.push((format!("{}/{}", id, kid), ds.key(kid.as_str()).is_some()));
                                let did = format!("!D{}", k);
                                v.push((format!("{}/{}", id, did), ds.annotationdata(did.as_str()).is_some()));
                            }
                        }
                    }
                    v
                })
            };
            if let (Ok(a), Ok(b)) = (probe(&h.store), probe(&loaded)) {
                if let Some(((id, x), (_, y))) = a.iter().zip(b.iter()).find(|(x, y)| x != y) {
                    let kind = id.rsplit('/').next().unwrap_or("").chars().nth(1).unwrap_or('?');
                    rep.violation(format!("C11/temporary-id-lookup-differs/{}", kind), json!({"lookup": id, "saved": x, "loaded": y, "history": hj(&h, &extra)}));
                }
            }
        }
        // (2) observation with handles and every lookup
        rep.eval();
        match (obs::observe(&h.store, true, true), obs::observe(&loaded, true, true)) {
            (Ok(a), Ok(b)) => {
                if let Some((path, x, y)) = first_diff(&a, &b, "") {
                    rep.violation(
                        format!("C11/observation-differs{}/{}", path_class(&path), diff_kind(&x, &y)),
                        json!({"path": path, "saved": x, "loaded": y, "history": hj(&h, &extra)}),
                    );
                }
            }
            (_, Err(pn)) => rep.violation(format!("C11/observe-loaded-panic/{}", pn.class()), json!({"panic": pn.msg, "at": pn.loc, "history": hj(&h, &extra)})),
            _ => {}
        }
        // (3) searches
        rep.eval();
        match (answers(&h.store), answers(&loaded)) {
            (Ok(a), Ok(b)) => {
                if let Some((path, x, y)) = first_diff(&a, &b, "") {
                    rep.violation(
                        format!("C11/answers-differ/{}", path.split('/').nth(2).unwrap_or("")),
                        json!({"path": path, "saved": x, "loaded": y, "history": hj(&h, &extra)}),
                    );
                }
            }
            (_, Err(pn)) => rep.violation(format!("C11/answers-loaded-panic/{}", pn.class()), json!({"panic": pn.msg, "history": hj(&h, &extra)})),
            _ => {}
        }
        // (4) JSON of both under an explicit JSON config
        rep.eval();
        let jcfg = Config::default().with_use_include(false);
        match (guard(|| h.store.to_json_string(&jcfg)), guard(|| loaded.to_json_string(&jcfg))) {
            (Ok(Ok(a)), Ok(Ok(b))) => {
                if a != b {
                    rep.violation("C11/json-of-loaded-store-differs", json!({"history": hj(&h, &extra), "saved_len": a.len(), "loaded_len": b.len()}));
                }
            }
            (Ok(Ok(_)), Ok(Err(e))) => rep.violation("C11/json-of-loaded-store-fails", json!({"error": format!("{}", e), "history": hj(&h, &extra)})),
            (Ok(Ok(_)), Err(pn)) => rep.violation(format!("C11/json-of-loaded-store-panics/{}", pn.class()), json!({"panic": pn.msg, "history": hj(&h, &extra)})),
            _ => {}
        }
        // (5) queries: the same rows (handles included) from both stores
        {
            let pl = crate::c08::pool(&h.store, &mut rng);
            for _ in 0..8 {
                let rt = *rng.pick(&crate::c08::RTS[..]);
                let n = rng.range(1, 2);
                let q = crate::c08::QS::new(rt, (0..n).map(|_| crate::c08::gen_cs(&mut rng, &pl, true)).collect());
                let (a, b) = (crate::c08::eval(&h.store, &q), crate::c08::eval(&loaded, &q));
                rep.eval();
                if a != b {
                    rep.violation("C11/query-answers-differ".to_string(), json!({"query": q.describe(), "saved": format!("{:?}", a).chars().take(400).collect::<String>(), "loaded": format!("{:?}", b).chars().take(400).collect::<String>(), "history": hj(&h, &extra)}));
                    break;
                }
                if matches!(a, crate::c08::Out::Rows(ref r) if !r.is_empty()) {
                    rep.count("query-answers-compared-nonempty");
                }
            }
        }
        if k % 67 == 0 {
            rep.sample(json!({"case": k, "history": hj(&h, &extra), "gaps": gaps, "shrink_on_load": shrink}));
        }
    }
}
