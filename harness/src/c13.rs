//! C13 — text-selection relations have their documented algebraic meaning.
//! Exhaustive over all pairs of ranges of short texts and all pairs of small sets, every operator and
//! every modifier combination; oracle = interval arithmetic + algebraic laws.

use crate::util::*;
use serde_json::json;
use stam::*;

#[derive(Clone, Copy, Debug, PartialEq)]
pub struct OpV {
    pub kind: u8, // index into KINDS
    pub all: bool,
    pub negate: bool,
    pub limit: Option<usize>,
    pub ws: bool,
}

pub const KINDS: [&str; 12] = [
    "EQUALS",
    "OVERLAPS",
    "EMBEDS",
    "EMBEDDED",
    "BEFORE",
    "AFTER",
    "PRECEDES",
    "SUCCEEDS",
    "SAMEBEGIN",
    "SAMEEND",
    "INSET",
    "SAMERANGE",
];

impl OpV {
    pub fn to_op(&self) -> TextSelectionOperator {
        let (all, negate, limit, allow_whitespace) = (self.all, self.negate, self.limit, self.ws);
        match self.kind {
            0 => TextSelectionOperator::Equals { all, negate },
            1 => TextSelectionOperator::Overlaps { all, negate },
            2 => TextSelectionOperator::Embeds { all, negate },
            3 => TextSelectionOperator::Embedded { all, negate, limit },
            4 => TextSelectionOperator::Before { all, negate, limit },
            5 => TextSelectionOperator::After { all, negate, limit },
            6 => TextSelectionOperator::Precedes {
                all,
                negate,
                allow_whitespace,
            },
            7 => TextSelectionOperator::Succeeds {
                all,
                negate,
                allow_whitespace,
            },
            8 => TextSelectionOperator::SameBegin { all, negate },
            9 => TextSelectionOperator::SameEnd { all, negate },
            10 => TextSelectionOperator::InSet { all, negate },
            _ => TextSelectionOperator::SameRange { all, negate },
        }
    }
    /// the same operator made with the constructor functions and modifiers of the public API
    pub fn built(&self) -> TextSelectionOperator {
        use TextSelectionOperator as T;
        let mut o = match self.kind {
            0 => T::equals(),
            1 => T::overlaps(),
            2 => T::embeds(),
            3 => T::embedded(),
            4 => T::before(),
            5 => T::after(),
            6 => if self.ws { T::precedes() } else { T::precedes_exact() },
            7 => if self.ws { T::succeeds() } else { T::succeeds_exact() },
            8 => T::samebegin(),
            9 => T::sameend(),
            10 => T::inset(),
            _ => T::samerange(),
        };
        if let (Some(l), 3..=5) = (self.limit, self.kind) {
            o = o.with_limit(l);
        }
        if self.all {
            o = o.toggle_all();
        }
        if self.negate {
            o = o.toggle_negate();
        }
        o
    }
    pub fn name(&self) -> String {
        let mut s = format!(
            "{}/all={},neg={}",
            KINDS[self.kind as usize],
            self.all as u8,
            self.negate as u8
        );
        if (3..=5).contains(&self.kind) {
            s.push_str(&format!(
                ",lim={}",
                self.limit.map(|l| l.to_string()).unwrap_or("-".into())
            ));
        }
        if self.kind == 6 || self.kind == 7 {
            s.push_str(&format!(",ws={}", self.ws as u8));
        }
        s
    }
    pub fn with(&self, f: impl FnOnce(&mut OpV)) -> OpV {
        let mut o = *self;
        f(&mut o);
        o
    }
}

pub fn all_variants(limits: &[Option<usize>]) -> Vec<OpV> {
    let mut v = Vec::new();
    for kind in 0..12u8 {
        for all in [false, true] {
            for negate in [false, true] {
                let lims: Vec<Option<usize>> = if (3..=5).contains(&kind) {
                    limits.to_vec()
                } else {
                    vec![None]
                };
                let wss: Vec<bool> = if kind == 6 || kind == 7 {
                    vec![false, true]
                } else {
                    vec![false]
                };
                for limit in lims.iter() {
                    for ws in wss.iter() {
                        v.push(OpV {
                            kind,
                            all,
                            negate,
                            limit: *limit,
                            ws: *ws,
                        });
                    }
                }
            }
        }
    }
    v
}

type R = (usize, usize);

/// interval-arithmetic definition of the positive relation `a OP b`; None = the documentation does not define it
pub fn ref_pair(op: &OpV, a: R, b: R, text: &[char]) -> Option<bool> {
    // "a limited amount of whitespace": WHITESPACE_LIMIT = 10 (documented constant)
    let gap_ws = |from: usize, to: usize| -> bool { to - from <= 10 && text[from..to].iter().all(|c| c.is_whitespace()) };
    let r = match op.kind {
        0 | 10 | 11 => a == b,
        1 => {
            if a.0 == a.1 || b.0 == b.1 {
                return None; // overlap with an empty range: not defined by the documentation
            }
            a.0.max(b.0) < a.1.min(b.1)
        }
        2 => b.0 >= a.0 && b.1 <= a.1,
        3 => {
            a.0 >= b.0
                && a.1 <= b.1
                && op
                    .limit
                    .map(|l| a.0 - b.0 <= l && b.1 - a.1 <= l)
                    .unwrap_or(true)
        }
        4 => a.1 <= b.0 && op.limit.map(|l| b.0 - a.1 <= l).unwrap_or(true),
        5 => a.0 >= b.1 && op.limit.map(|l| a.0 - b.1 <= l).unwrap_or(true),
        6 => {
            if !op.ws {
                a.1 == b.0
            } else {
                b.0 >= a.1 && gap_ws(a.1, b.0)
            }
        }
        7 => {
            if !op.ws {
                a.0 == b.1
            } else {
                a.0 >= b.1 && gap_ws(b.1, a.0)
            }
        }
        8 => a.0 == b.0,
        9 => a.1 == b.1,
        _ => unreachable!(),
    };
    Some(r)
}

/// documented reading of the relation on sets (README "Searching related text" + doc comments of the enum)
pub fn ref_sets(op: &OpV, a: &[R], b: &[R], text: &[char]) -> Option<bool> {
    let pos = op.with(|o| o.negate = false);
    let pair = |x: R, y: R| ref_pair(&pos, x, y, text);
    let leftmost = |s: &[R]| *s.iter().min_by_key(|r| r.0).unwrap();
    let rightmost = |s: &[R]| *s.iter().max_by_key(|r| r.1).unwrap();
    let mut undefined = false;
    let mut p = |x: R, y: R| -> bool {
        match pair(x, y) {
            Some(v) => v,
            None => {
                undefined = true;
                false
            }
        }
    };
    if op.all && op.limit.is_some() && (a.len() > 1 || b.len() > 1) {
        // how `limit` combines with `all` on non-singleton sets is not documented
        return None;
    }
    let r = if !op.all {
        match op.kind {
            0 => {
                // both sets cover the exact same text selections
                a.len() == b.len() && a.iter().all(|x| b.contains(x)) && b.iter().all(|y| a.contains(y))
            }
            2 => {
                // "All TextSelections in B are embedded by a TextSelection in A"
                b.iter().all(|y| a.iter().any(|x| p(*x, *y)))
            }
            11 => {
                // SameRange: leftmost begins coincide and rightmost ends coincide
                leftmost(a).0 == leftmost(b).0 && rightmost(a).1 == rightmost(b).1
            }
            _ => {
                // "Each TextSelection in A <relation> a TextSelection in B"
                a.iter().all(|x| b.iter().any(|y| p(*x, *y)))
            }
        }
    } else {
        match op.kind {
            0 => a.len() == b.len() && a.iter().all(|x| b.contains(x)) && b.iter().all(|y| a.contains(y)),
            10 => a.iter().all(|x| b.contains(x)),
            1 | 2 | 3 => a.iter().all(|x| b.iter().all(|y| p(*x, *y))),
            4 | 5 => a.iter().all(|x| b.iter().all(|y| p(*x, *y))),
            6 => {
                // rightmost in A ends where the leftmost in B begins
                let x = rightmost(a);
                let y = leftmost(b);
                p(x, y)
            }
            7 => {
                let x = leftmost(a);
                let y = rightmost(b);
                p(x, y)
            }
            8 => leftmost(a).0 == leftmost(b).0,
            9 => rightmost(a).1 == rightmost(b).1,
            _ => leftmost(a).0 == leftmost(b).0 && rightmost(a).1 == rightmost(b).1,
        }
    };
    if undefined {
        None
    } else {
        Some(r)
    }
}

/// Allen-style geometry class of a pair (for signatures)
pub fn geom(a: R, b: R) -> String {
    let z = |r: R| if r.0 == r.1 { "z" } else { "n" };
    let rel = if a == b {
        "eq"
    } else if a.1 < b.0 {
        "lt"
    } else if a.1 == b.0 {
        "meets"
    } else if b.1 < a.0 {
        "gt"
    } else if b.1 == a.0 {
        "metby"
    } else if a.0 == b.0 {
        if a.1 < b.1 {
            "starts"
        } else {
            "startedby"
        }
    } else if a.1 == b.1 {
        if a.0 > b.0 {
            "finishes"
        } else {
            "finishedby"
        }
    } else if a.0 > b.0 && a.1 < b.1 {
        "during"
    } else if a.0 < b.0 && a.1 > b.1 {
        "contains"
    } else if a.0 < b.0 {
        "ovl"
    } else {
        "ovlby"
    };
    format!("{}{}-{}", z(a), z(b), rel)
}

fn ranges(len: usize) -> Vec<R> {
    let mut v = Vec::new();
    for b in 0..=len {
        for e in b..=len {
            v.push((b, e));
        }
    }
    v
}

struct Ctx<'s> {
    store: &'s AnnotationStore,
    text: Vec<char>,
}

impl<'s> Ctx<'s> {
    fn res(&self) -> ResultItem<'s, TextResource> {
        self.store.resource("r").expect("resource")
    }
    fn ts(&self, r: R) -> ResultTextSelection<'s> {
        self.res()
            .textselection(&Offset::simple(r.0, r.1))
            .expect("valid range")
    }
    fn set(&self, rs: &[R]) -> ResultTextSelectionSet<'s> {
        rs.iter().map(|r| self.ts(*r)).collect()
    }
}

fn check_pairs(ctx: &Ctx, ops: &[OpV], rs: &[R], rep: &mut Report, layout: &str) {
    // results[op][i][j]
    let n = rs.len();
    let mut results: Vec<Vec<Option<bool>>> = Vec::with_capacity(ops.len());
    for op in ops {
        let o = op.to_op();
        let mut m = vec![None; n * n];
        for (i, a) in rs.iter().enumerate() {
            let ta = ctx.ts(*a);
            for (j, b) in rs.iter().enumerate() {
                let tb = ctx.ts(*b);
                rep.eval();
                match guard(|| ta.test(&o, &tb)) {
                    Ok(got) => {
                        m[i * n + j] = Some(got);
                        let pos = op.with(|o| o.negate = false);
                        if let Some(mut want) = ref_pair(&pos, *a, *b, &ctx.text) {
                            if op.negate {
                                want = !want;
                            }
                            if want {
                                rep.distinct(&format!("pair/{}/{}", op.name(), geom(*a, *b)));
                            }
                            if got != want {
                                rep.violation(
                                    format!("C13/pair/{}/def/{}/got={}", op.name(), geom(*a, *b), got),
                                    json!({"layout": layout, "a": a, "b": b, "op": op.name(), "got": got, "want": want}),
                                );
                            }
                        }
                    }
                    Err(p) => {
                        rep.violation(
                            format!("C13/pair/{}/panic/{}", op.name(), p.class()),
                            json!({"layout": layout, "a": a, "b": b, "op": op.name(), "panic": p.msg, "at": p.loc}),
                        );
                    }
                }
            }
        }
        results.push(m);
    }
    // laws
    let find = |o: OpV| ops.iter().position(|x| *x == o);
    for (k, op) in ops.iter().enumerate() {
        let m = &results[k];
        // negate = exact complement
        if !op.negate {
            if let Some(kn) = find(op.with(|o| o.negate = true)) {
                for idx in 0..n * n {
                    rep.eval();
                    if let (Some(x), Some(y)) = (m[idx], results[kn][idx]) {
                        if x == y {
                            let (a, b) = (rs[idx / n], rs[idx % n]);
                            rep.violation(
                                format!("C13/pair/{}/law/negate-complement/{}", op.name(), geom(a, b)),
                                json!({"layout": layout, "a": a, "b": b, "op": op.name(), "both": x}),
                            );
                        }
                    }
                }
            }
        }
        // `all` has no effect on pairs
        if !op.all {
            if let Some(ka) = find(op.with(|o| o.all = true)) {
                for idx in 0..n * n {
                    rep.eval();
                    if let (Some(x), Some(y)) = (m[idx], results[ka][idx]) {
                        if x != y {
                            let (a, b) = (rs[idx / n], rs[idx % n]);
                            rep.violation(
                                format!("C13/pair/{}/law/all-on-singletons/{}", op.name(), geom(a, b)),
                                json!({"layout": layout, "a": a, "b": b, "op": op.name(), "plain": x, "all": y}),
                            );
                        }
                    }
                }
            }
        }
        // converses and symmetry
        let converse: Option<u8> = match op.kind {
            0 => Some(0),
            1 => Some(1),
            2 => Some(3),
            4 => Some(5),
            6 => Some(7),
            _ => None,
        };
        if let Some(ck) = converse {
            if op.kind == 2 && op.limit.is_some() {
                continue;
            }
            if let Some(kc) = find(op.with(|o| o.kind = ck)) {
                for i in 0..n {
                    for j in 0..n {
                        rep.eval();
                        if let (Some(x), Some(y)) = (m[i * n + j], results[kc][j * n + i]) {
                            if x != y {
                                rep.violation(
                                    format!(
                                        "C13/pair/{}/law/converse-{}/{}",
                                        op.name(),
                                        KINDS[ck as usize],
                                        geom(rs[i], rs[j])
                                    ),
                                    json!({"layout": layout, "a": rs[i], "b": rs[j], "op": op.name(), "fwd": x, "conv": y}),
                                );
                            }
                        }
                    }
                }
            }
        }
        // equals implies embeds, embedded, samebegin, sameend
        if op.kind == 0 && !op.negate {
            for implied in [2u8, 3, 8, 9] {
                if let Some(ki) = find(op.with(|o| o.kind = implied)) {
                    for idx in 0..n * n {
                        rep.eval();
                        if let (Some(true), Some(false)) = (m[idx], results[ki][idx]) {
                            let (a, b) = (rs[idx / n], rs[idx % n]);
                            rep.violation(
                                format!("C13/pair/{}/law/equals-implies-{}", op.name(), KINDS[implied as usize]),
                                json!({"layout": layout, "a": a, "b": b}),
                            );
                        }
                    }
                }
            }
        }
    }
}

fn subsets(universe: &[R], maxsize: usize) -> Vec<Vec<R>> {
    let mut out: Vec<Vec<R>> = Vec::new();
    let n = universe.len();
    for i in 0..n {
        out.push(vec![universe[i]]);
    }
    if maxsize >= 2 {
        for i in 0..n {
            for j in i + 1..n {
                out.push(vec![universe[i], universe[j]]);
                // also the reverse insertion order (sets are unsorted internally)
                out.push(vec![universe[j], universe[i]]);
            }
        }
    }
    if maxsize >= 3 {
        for i in 0..n {
            for j in i + 1..n {
                for k in j + 1..n {
                    out.push(vec![universe[k], universe[i], universe[j]]);
                }
            }
        }
    }
    out
}

fn set_class(a: &[R], b: &[R]) -> String {
    format!("|A|={},|B|={}", a.len(), b.len())
}

fn check_sets(ctx: &Ctx, ops: &[OpV], sets: &[Vec<R>], rep: &mut Report, layout: &str, stride: (usize, usize)) {
    let rsets: Vec<ResultTextSelectionSet> = sets.iter().map(|s| ctx.set(s)).collect();
    // the same sets built another way: first member, sort(), then the other members (a sorted set keeps itself sorted on add)
    let rsets_sorted: Vec<ResultTextSelectionSet> = sets
        .iter()
        .map(|s| {
            let mut t = TextSelectionSet::new(ctx.res().handle());
            for (n, r) in s.iter().enumerate() {
                t.add(ctx.ts(*r).inner().clone());
                if n == 0 {
                    t.sort();
                }
            }
            t.as_resultset(ctx.store)
        })
        .collect();
    let mut pairidx = 0usize;
    for (i, a) in sets.iter().enumerate() {
        for (j, b) in sets.iter().enumerate() {
            pairidx += 1;
            if pairidx % stride.1 != stride.0 {
                continue;
            }
            for op in ops {
                let o = op.to_op();
                rep.eval();
                let got = guard(|| rsets[i].test_set(&o, &rsets[j]));
                match got {
                    Err(p) => {
                        rep.violation(
                            format!("C13/set/{}/panic/{}", op.name(), p.class()),
                            json!({"layout": layout, "A": a, "B": b, "op": op.name(), "panic": p.msg, "at": p.loc}),
                        );
                    }
                    Ok(got) => {
                        // the answer does not depend on how the sets were put together
                        if a.len() > 1 || b.len() > 1 {
                            rep.eval();
                            match guard(|| rsets_sorted[i].test_set(&o, &rsets_sorted[j])) {
                                Ok(v) if v != got => rep.violation(
                                    format!("C13/set/{}/law/built-sorted-vs-collected/{}", op.name(), set_class(a, b)),
                                    json!({"layout": layout, "A": a, "B": b, "collected": got, "first-member-then-sort-then-add": v}),
                                ),
                                Err(p) => rep.violation(format!("C13/set/{}/panic-on-sorted-set/{}", op.name(), p.class()), json!({"layout": layout, "A": a, "B": b, "panic": p.msg, "at": p.loc})),
                                _ => {}
                            }
                        }
                        let pos = op.with(|o| o.negate = false);
                        if let Some(mut want) = ref_sets(&pos, a, b, &ctx.text) {
                            if op.negate {
                                want = !want;
                            }
                            if want && (a.len() > 1 || b.len() > 1) {
                                rep.distinct(&format!("set/{}/{}", op.name(), set_class(a, b)));
                            }
                            if got != want && op.kind == 2 && !op.all && {
                                // root-cause predicate: the implementation evaluates "each in A embeds some in B"
                                let alt = a.iter().all(|x| b.iter().any(|y| ref_pair(&pos, *x, *y, &ctx.text) == Some(true)));
                                got == (alt != op.negate)
                            } {
                                rep.violation(
                                    "C13/set/EMBEDS/all=0/explained:each-in-A-embeds-some-in-B",
                                    json!({"layout": layout, "A": a, "B": b, "op": op.name(), "got": got, "want": want,
                                           "doc": "All TextSelections in B are embedded by a TextSelection in A"}),
                                );
                            } else if got != want {
                                rep.violation(
                                    format!("C13/set/{}/def/{}/got={}", op.name(), set_class(a, b), got),
                                    json!({"layout": layout, "A": a, "B": b, "op": op.name(), "got": got, "want": want}),
                                );
                            }
                        }
                        // one side a singleton: the mixed routes (set against selection, selection against set) answer like set against set
                        if b.len() == 1 && a.len() > 1 && op.kind != 0 {
                            let tb = ctx.ts(b[0]);
                            rep.eval();
                            match guard(|| rsets[i].test(&o, &tb)) {
                                Ok(v) if v != got => rep.violation(format!("C13/set/{}/law/set.test-vs-test_set-with-singleton/{}", op.name(), set_class(a, b)), json!({"layout": layout, "A": a, "b": b[0], "set.test_set": got, "set.test": v})),
                                Err(p) => rep.violation(format!("C13/route/set.test/{}/panic/{}", op.name(), p.class()), json!({"layout": layout, "A": a, "b": b[0], "panic": p.msg, "at": p.loc})),
                                _ => {}
                            }
                        }
                        if a.len() == 1 && b.len() > 1 && op.kind != 0 {
                            let ta = ctx.ts(a[0]);
                            rep.eval();
                            match guard(|| ta.test_set(&o, &rsets[j])) {
                                Ok(v) if v != got => rep.violation(format!("C13/set/{}/law/ts.test_set-vs-test_set-with-singleton/{}", op.name(), set_class(a, b)), json!({"layout": layout, "a": a[0], "B": b, "set.test_set": got, "ts.test_set": v})),
                                Err(p) => rep.violation(format!("C13/route/ts.test_set/{}/panic/{}", op.name(), p.class()), json!({"layout": layout, "a": a[0], "B": b, "panic": p.msg, "at": p.loc})),
                                _ => {}
                            }
                        }
                        // singleton sets == members, through every public route
                        if a.len() == 1 && b.len() == 1 {
                            let ta = ctx.ts(a[0]);
                            let tb = ctx.ts(b[0]);
                            rep.eval();
                            let routes: Vec<(&str, Result<bool, Panic>)> = vec![
                                ("ts.test", guard(|| ta.test(&o, &tb))),
                                ("ts.test_set", guard(|| ta.test_set(&o, &rsets[j]))),
                                ("set.test", guard(|| rsets[i].test(&o, &tb))),
                            ];
                            for (name, r) in routes {
                                match r {
                                    Ok(v) if v != got => rep.violation(
                                        format!("C13/set/{}/law/singleton-vs-{}", op.name(), name),
                                        json!({"layout": layout, "a": a[0], "b": b[0], "set.test_set": got, name: v}),
                                    ),
                                    Err(p) if name != "ts.test" => rep.violation(
                                        format!("C13/route/{}/{}/panic/{}", name, op.name(), p.class()),
                                        json!({"layout": layout, "a": a[0], "b": b[0], "panic": p.msg, "at": p.loc}),
                                    ),
                                    _ => {}
                                }
                            }
                        }
                    }
                }
            }
        }
    }
}

fn check_annotations(ctx: &Ctx, ops: &[OpV], universe: &[R], rep: &mut Report, layout: &str) {
    // annotations a<i> were created on the universe ranges by build_store
    for (i, a) in universe.iter().enumerate() {
        let Some(ai) = ctx.store.annotation(format!("a{}", i).as_str()) else { continue };
        for (j, b) in universe.iter().enumerate() {
            let Some(aj) = ctx.store.annotation(format!("a{}", j).as_str()) else { continue };
            for op in ops {
                let o = op.to_op();
                rep.eval();
                match guard(|| ai.test(&o, &aj)) {
                    Ok(got) => {
                        let pos = op.with(|o| o.negate = false);
                        if let Some(mut want) = ref_sets(&pos, &[*a], &[*b], &ctx.text) {
                            if op.negate {
                                want = !want;
                            }
                            if got != want {
                                rep.violation(
                                    format!("C13/annotation/{}/def/{}/got={}", op.name(), geom(*a, *b), got),
                                    json!({"layout": layout, "a": a, "b": b, "op": op.name(), "got": got, "want": want}),
                                );
                            }
                        }
                    }
                    Err(p) => rep.violation(
                        format!("C13/annotation/{}/panic/{}", op.name(), p.class()),
                        json!({"layout": layout, "a": a, "b": b, "panic": p.msg, "at": p.loc}),
                    ),
                }
            }
        }
    }
}

fn build_store(text: &str, universe: &[R]) -> AnnotationStore {
    let mut store = AnnotationStore::new(Config::default().with_debug(false))
        .with_id("c13")
        .with_resource(TextResourceBuilder::new().with_id("r").with_text(text))
        .expect("resource");
    for (i, r) in universe.iter().enumerate() {
        store
            .annotate(
                AnnotationBuilder::new()
                    .with_id(format!("a{}", i))
                    .with_target(SelectorBuilder::textselector("r", Offset::simple(r.0, r.1)))
                    .with_data("s", "k", i as isize),
            )
            .expect("annotate");
    }
    store
}

pub fn sub_universe(len: usize, n: usize, rng: &mut Rng) -> Vec<R> {
    // a spread of nested, crossing, adjacent, zero-width ranges incl. text start and end
    let mut u: Vec<R> = vec![(0, len), (0, 2), (2, 4), (1, 3), (3, len), (2, 2), (len, len), (0, 0), (4, len - 1), (1, len - 1)];
    u.retain(|r| r.0 <= r.1 && r.1 <= len);
    u.sort();
    u.dedup();
    let all = ranges(len);
    while u.len() < n {
        let r = *rng.pick(&all);
        if !u.contains(&r) {
            u.push(r);
        }
    }
    u.truncate(n);
    u
}

pub fn run(p: &Params, rep: &mut Report) {
    rep.rule = "exhaustive: every ordered pair of ranges (incl. zero-width) of each text layout x every operator x every all/negate/limit/whitespace combination through ResultTextSelection::test; every ordered pair of sets of size<=2 (3 in thorough) over a 10-range sub-universe through ResultTextSelectionSet::test_set (+ the mixed routes set.test(selection) and selection.test_set(set) whenever one side is a singleton, ResultItem<Annotation>::test). distinct_nontrivial = distinct (level, operator variant, Allen geometry class | set sizes) cells in which the reference says the relation HOLDS".into();
    rep.assumptions = vec![
        "overlap with a zero-width range is not defined by the documentation: only the algebraic laws are demanded there".into(),
        "set semantics are taken from the README ('Each TextSelection in A ... a TextSelection in B', for EMBEDS 'All TextSelections in B are embedded by a TextSelection in A') and the doc comments of TextSelectionOperator".into(),
        "empty sets are excluded".into(),
    ];
    // the last layout has whitespace runs of exactly 10, 11 and 9 (the documented whitespace limit is 10); it is too long for
    // all ranges, so only ranges between the letters, the run boundaries and two points inside a run are taken
    const GAPS: &str = "a          b           c         d";
    let layouts: Vec<&str> = if p.thorough {
        vec!["ab cd e", "  a  b ", "abcdefg", "a \n\tb  c", "é 日😀 İ\n", GAPS]
    } else {
        // a short one with multi-byte characters before the gaps: byte and character positions differ
        vec!["ab cd e", "  a  b ", "abcdefg", "\u{e9} \u{65e5} b", GAPS]
    };
    let limits = [None, Some(0), Some(1), Some(3)];
    let ops = all_variants(&limits);
    // the constructor functions and modifiers give the operator they say they give (the searches and queries are built with them)
    if p.shard == 0 {
        for op in &ops {
            rep.eval();
            match guard(|| op.built()) {
                Ok(b) if b == op.to_op() => {}
                Ok(b) => rep.violation(format!("C13/operator-builder/{}", op.name()), json!({"built_with_constructor_and_modifiers": format!("{:?}", b), "meant": format!("{:?}", op.to_op())})),
                Err(pn) => rep.violation(format!("C13/operator-builder/panic/{}", pn.class()), json!({"operator": op.name(), "panic": pn.msg})),
            }
        }
    }
    rep.extra.insert("operator_variants".into(), json!(ops.len()));
    let mut units: Vec<(usize, &str)> = Vec::new();
    for (li, l) in layouts.iter().enumerate() {
        units.push((li, l));
    }
    // work units: (layout, part) where part 0 = pairs, 1.. = set strides
    let set_parts = if p.thorough { 8 } else { 4 };
    let mut work: Vec<(usize, usize)> = Vec::new();
    for li in 0..layouts.len() {
        for part in 0..=set_parts {
            work.push((li, part));
        }
    }
    for k in p.cases(work.len() as u64) {
        let (li, part) = work[k as usize];
        rep.current_case = p.case_coord(k);
        rep.cases += 1;
        let layout = layouts[li];
        let text: Vec<char> = layout.chars().collect();
        let mut rng = Rng::new(p.seed, "c13", li as u64);
        let sparse = layout == GAPS;
        let universe = if sparse { vec![(0, 1), (11, 12), (23, 24), (33, 34), (0, 12), (11, 24), (1, 11), (12, 23), (24, 33), (5, 6)] } else { sub_universe(text.len(), 10, &mut rng) };
        let store = build_store(layout, &universe);
        let ctx = Ctx { store: &store, text: text.clone() };
        if part == 0 {
            let rs = if sparse {
                let pts = [0usize, 1, 5, 6, 11, 12, 23, 24, 33, 34];
                let mut v = Vec::new();
                for (i, b) in pts.iter().enumerate() {
                    for e in &pts[i..] {
                        v.push((*b, *e));
                    }
                }
                v
            } else {
                ranges(text.len())
            };
            check_pairs(&ctx, &ops, &rs, rep, layout);
            check_annotations(&ctx, &ops, &universe, rep, layout);
            rep.sample(json!({"layout": layout, "ranges": rs.len(), "pairs": rs.len()*rs.len(), "operator_variants": ops.len(), "example": {"a": rs[5], "b": rs[9], "op": ops[17].name()}}));
        } else {
            let sets = subsets(&universe, if p.thorough { 3 } else { 2 });
            check_sets(&ctx, &ops, &sets, rep, layout, (part - 1, set_parts));
            if part == 1 {
                rep.sample(json!({"layout": layout, "universe": universe, "sets": sets.len(), "set_pairs": sets.len()*sets.len(), "example": {"A": sets[12], "B": sets[30]}}));
            }
        }
    }
    rep.exhaustive = p.only_case.is_none();
}
