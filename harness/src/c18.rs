//! C18 — text validation accepts unchanged text and flags changed text.
//! Oracle: the characters each annotation selects before and after an edit of a resource text (the selection
//! itself is C04/C05's business and is read from the stores); validation must say "invalid" exactly for the
//! annotations whose selected characters changed.

use crate::gen::GenCfg;
use crate::hist::*;
use crate::util::*;
use serde_json::{json, Value};
use stam::*;

const MODES: [(TextValidationMode, &str); 4] = [(TextValidationMode::Checksum, "checksum"), (TextValidationMode::Text, "text"), (TextValidationMode::Both, "both"), (TextValidationMode::Auto, "auto")];

/// (id, selected text, verdict) per annotation, in store order
fn verdicts(store: &AnnotationStore) -> Result<Vec<(Option<String>, String, Option<bool>)>, Panic> {
    guard(|| store.annotations().map(|a| (a.id().map(|s| s.to_string()), a.text_join(""), a.validate_text())).collect())
}

fn textclass(s: &str) -> &'static str {
    if s.is_ascii() {
        "ascii"
    } else {
        "multibyte"
    }
}

fn check_all_valid(rep: &mut Report, store: &AnnotationStore, stage: &str, mode: &str, ctx: &Value) -> bool {
    rep.eval();
    let v = match verdicts(store) {
        Ok(v) => v,
        Err(p) => {
            rep.violation(format!("C18/{}/panic/{}", stage, p.class()), json!({"context": ctx, "panic": p.msg, "at": p.loc}));
            return false;
        }
    };
    let mut ok = true;
    for (id, text, verdict) in &v {
        if text.is_empty() {
            continue; // selects no text: nothing to validate
        }
        rep.distinct(&format!("{}/{}/{}/len{}", stage, mode, textclass(text), if text.chars().count() < 40 { "<40" } else { ">=40" }));
        if *verdict != Some(true) {
            ok = false;
            let what = if verdict.is_none() { "no-validation-information" } else { "reported-invalid" };
            rep.violation(format!("C18/{}/unchanged-text-{}/{}/{}", stage, what, mode, textclass(text)), json!({"context": ctx, "annotation": id, "text": text, "verdict": verdict}));
            break;
        }
    }
    let total = guard(|| {
        let r = store.validate_text(true);
        (r.valid(), r.invalid(), r.missing())
    });
    if let Ok((_, invalid, _)) = total {
        if invalid > 0 && ok {
            let which: Vec<Value> = store
                .annotations()
                .filter(|a| a.validate_text() == Some(false))
                .map(|a| json!({"annotation": a.id(), "text": a.text_join(""), "target": format!("{:?}", a.as_ref().target()), "data": a.data().map(|d| json!([d.set().id(), d.key().id(), d.value().to_string()])).collect::<Vec<_>>()}))
                .collect();
            rep.violation(format!("C18/{}/store-level-count-invalid/{}", stage, mode), json!({"context": ctx, "invalid": invalid, "annotations_reported_invalid": which}));
            ok = false;
        }
    }
    ok
}

fn edit_text(rng: &mut Rng, text: &str, around: Option<(usize, usize)>) -> (String, String) {
    let chars: Vec<char> = text.chars().collect();
    let n = chars.len();
    // positions: before, inside, at the edges of, after a selection (or anywhere)
    let anywhere = rng.below(n + 1);
    let pos = match around {
        Some((b, e)) => *rng.pick(&[b.saturating_sub(1), b, (b + e) / 2, e.saturating_sub(1), e, (e + 1).min(n), anywhere]),
        None => rng.below(n + 1),
    }
    .min(n);
    let mut out = chars.clone();
    let kind = match rng.below(5) {
        // the tail or the head of the text goes: selections with an end-aligned cursor shrink to a prefix / suffix of what they were
        3 if n >= 2 => {
            let k = rng.range(1, 3.min(n as i64 - 1)) as usize;
            out.truncate(n - k);
            "truncate"
        }
        4 if n >= 2 => {
            let k = rng.range(1, 3.min(n as i64 - 1)) as usize;
            out.drain(0..k);
            "behead"
        }
        0 if pos < n => {
            out[pos] = if chars[pos] == 'Q' { 'Z' } else { 'Q' };
            "substitute"
        }
        1 => {
            out.insert(pos, *rng.pick(&['Q', 'é', '日']));
            "insert"
        }
        _ if pos < n => {
            out.remove(pos);
            "delete"
        }
        _ => {
            out.insert(pos, 'Q');
            "insert"
        }
    };
    (out.into_iter().collect(), format!("{}@{}", kind, pos))
}

pub fn run(p: &Params, rep: &mut Report) {
    rep.rule = "stores reached by seeded histories of the C01 generator (all selector kinds, begin- and end-aligned offsets, 1-4 byte text); protect_text in each of the four modes; every text-selecting annotation must validate, also after a STAM JSON save and reload, and after adding annotations and protecting again; then 10 (20) edits per store (substitution, insertion, deletion placed before, inside, at the edges of and after a selection; removal of 1-3 characters at the tail or the head of the text) applied to the text inside the serialisation, reload, and the verdict of every annotation compared with whether its selected characters changed. distinct_nontrivial = distinct (stage, mode, text class, length class) and (edit kind, mode, verdict) observed".into();
    rep.assumptions = vec![
        "which characters an annotation selects: the shadow model's answer must equal the store's at protection time (as a multiset of texts); afterwards it is read from the store (text_join)".into(),
        "an edited serialisation that no longer loads is skipped and counted".into(),
        "annotations that select no text (or empty text) carry no validation information and are not judged".into(),
    ];
    let total: u64 = if p.thorough { 10000 } else { 4000 };
    for k in p.cases(total) {
        rep.current_case = p.case_coord(k);
        rep.cases += 1;
        let mut rng = Rng::new(p.seed, "c18", k);
        let mut cfg = GenCfg::default();
        cfg.protect = false;
        cfg.hostile_ids = false;
        cfg.max_anns = 10;
        cfg.removals = rng.chance(1, 3);
        cfg.text_max = if rng.chance(1, 3) { 120 } else { 30 };
        let nops = rng.range(6, if p.thorough { 26 } else { 20 }) as usize;
        let mut h = random_history(&mut rng, cfg, nops, 100, false);
        let (mode, modename) = MODES[rng.below(4)];
        let ctx = json!({"history": h.replay_json(), "mode": modename});
        rep.eval();
        match guard(|| h.store.protect_text(mode)) {
            Ok(Ok(())) => {}
            Ok(Err(e)) => {
                rep.violation(format!("C18/protect/error/{}", modename), json!({"context": ctx, "error": e.to_string()}));
                continue;
            }
            Err(pn) => {
                rep.violation(format!("C18/protect/panic/{}/{}", modename, pn.class()), json!({"context": ctx, "panic": pn.msg, "at": pn.loc}));
                continue;
            }
        }
        if !check_all_valid(rep, &h.store, "after-protect", modename, &ctx) {
            continue;
        }
        // what is protected must be the characters that the annotation selects according to the shadow model (a store that
        // leaves part of an annotation's text out, when protecting and when validating alike, flags no edit of that part)
        if h.ended.is_none() && !h.model.text_order_unsettled() {
            let mut differs = false;
            for (ah, ma) in &h.model.anns {
                let Some(a) = h.store.annotation(AnnotationHandle::new(*ah)) else { continue };
                let mut want = h.model.ann_text(ma);
                want.sort();
                rep.eval();
                let got = guard(|| {
                    let mut v: Vec<String> = a.text().map(|s| s.to_string()).collect();
                    v.sort();
                    (v, a.validate_text())
                });
                if let Ok((got, verdict)) = got {
                    rep.distinct(&format!("protected-text-vs-model/{}/{}", ma.target.kind(), modename));
                    if got != want {
                        differs = true;
                        let all_missing = got.is_empty() && verdict.is_none();
                        rep.violation(
                            format!("C18/after-protect/protected-text-is-not-the-selected-text/{}/{}", ma.target.kind(), if all_missing { "nothing-protected" } else { "part-protected" }),
                            json!({"context": ctx, "annotation": h.model.ann_name(*ah), "target": h.model.sel_json(&ma.target), "protected": got, "selected_according_to_the_model": want, "verdict": verdict}),
                        );
                        break;
                    }
                }
            }
            if differs {
                continue;
            }
        }
        if rep.samples.len() < 3 {
            rep.sample(json!({"mode": modename, "operations": h.ops.len(), "verdicts_after_protect": verdicts(&h.store).map(|v| v.into_iter().map(|(id, text, verdict)| json!([id, text, verdict])).collect::<Vec<_>>()).unwrap_or_default()}));
        }
        // more annotations, protect again (possibly in another mode)
        if rng.chance(1, 2) {
            let mut g = crate::gen::Gen::new({
                let mut c = GenCfg::default();
                c.protect = false;
                // protect_text went to the store directly: the model does not know the validation set, so handles of
                // sets, keys and data are not in step with the store; refer by public id only
                c.by_handle = false;
                c.by_temp_id = false;
                c
            });
            // ids must not clash with the ones used so far
            for _ in 0..40 {
                let _ = g.fresh_id(&mut rng, "x");
            }
            let mut added = 0;
            for _ in 0..6 {
                if let Some(crate::model::Op::Annotate(mut req)) = g.gen_annotate(&mut rng, &h.model) {
                    req.id = Some(format!("again{}", added));
                    if std::env::var("VERIF_DEBUG").is_ok() {
                        eprintln!("DEBUG again: {}", crate::model::Op::Annotate(req.clone()).to_json());
                    }
                    if guard(|| h.store.annotate(crate::drive::annotationbuilder(&req))).map(|r| r.is_ok()).unwrap_or(false) {
                        added += 1;
                    }
                }
                if added >= 2 {
                    break;
                }
            }
            let (mode2, modename2) = MODES[rng.below(4)];
            if guard(|| h.store.protect_text(mode2)).map(|r| r.is_ok()).unwrap_or(false) {
                if !check_all_valid(rep, &h.store, "after-second-protect", &format!("{}-then-{}", modename, modename2), &ctx) {
                    continue;
                }
            }
        }
        // save and reload
        let jcfg = Config::default().with_use_include(false);
        let Ok(Ok(json_text)) = guard(|| h.store.to_json_string(&jcfg)) else {
            rep.count("save-failed (C05)");
            continue;
        };
        rep.eval();
        let reloaded = match guard(|| AnnotationStore::from_str(&json_text, Config::default())) {
            Ok(Ok(s)) => s,
            _ => {
                rep.count("reload-failed (C05)");
                continue;
            }
        };
        if !check_all_valid(rep, &reloaded, "after-reload", modename, &ctx) {
            continue;
        }
        let Ok(before) = verdicts(&reloaded) else { continue };
        // edits of the text inside the serialisation
        let Ok(doc) = serde_json::from_str::<Value>(&json_text) else { continue };
        let nres = doc["resources"].as_array().map(|a| a.len()).unwrap_or(0);
        if nres == 0 {
            continue;
        }
        for _ in 0..(if p.thorough { 20 } else { 10 }) {
            let ri = rng.below(nres);
            let Some(orig) = doc["resources"][ri]["text"].as_str().map(|s| s.to_string()) else { continue };
            // aim near a selection of this resource
            let rid = doc["resources"][ri]["@id"].as_str().unwrap_or("").to_string();
            let sels: Vec<(usize, usize)> = reloaded.resource(rid.as_str()).map(|r| r.textselections().map(|t| (t.begin(), t.end())).collect()).unwrap_or_default();
            let around = if sels.is_empty() || rng.chance(1, 5) { None } else { Some(sels[rng.below(sels.len())]) };
            let (edited, what) = edit_text(&mut rng, &orig, around);
            // edit the text in place (the order of the fields of the serialisation matters to the reader)
            let enc_orig = serde_json::to_string(&orig).unwrap();
            let enc_new = serde_json::to_string(&edited).unwrap();
            let edited_json = if json_text.contains(&format!("\"text\": {}", enc_orig)) {
                json_text.replacen(&format!("\"text\": {}", enc_orig), &format!("\"text\": {}", enc_new), 1)
            } else if json_text.contains(&format!("\"text\":{}", enc_orig)) {
                json_text.replacen(&format!("\"text\":{}", enc_orig), &format!("\"text\":{}", enc_new), 1)
            } else {
                rep.count("text-field-not-found-in-serialisation");
                continue;
            };
            rep.eval();
            let loaded = match guard(|| AnnotationStore::from_str(&edited_json, Config::default())) {
                Ok(Ok(s)) => s,
                Ok(Err(_)) => {
                    rep.count("edited-serialisation-does-not-load");
                    continue;
                }
                Err(pn) => {
                    rep.count(&format!("edited-serialisation-panics (C19)/{}", pn.class()));
                    continue;
                }
            };
            let Ok(after) = verdicts(&loaded) else {
                rep.count("edited-store-not-observable");
                continue;
            };
            let ectx = json!({"context": ctx, "edit": what, "resource": rid, "original_text": orig, "edited_text": edited});
            if after.len() != before.len() {
                // only the text was edited: every annotation of the serialisation is either loaded (and judged) or the load fails;
                // one that silently disappears is neither reported invalid nor valid
                let kind = what.split('@').next().unwrap_or("");
                rep.violation(
                    format!("C18/edit/annotations-lost-or-gained-at-load/{}/{}", modename, kind),
                    json!({"context": ectx, "annotations_before": before.iter().map(|b| b.0.clone()).collect::<Vec<_>>(), "annotations_after_load": after.iter().map(|a| a.0.clone()).collect::<Vec<_>>()}),
                );
                continue;
            }
            // the store-level verdict counts what the per-annotation expectations add up to
            {
                let mut want = (0usize, 0usize, 0usize);
                let mut judged = true;
                for (b, a) in before.iter().zip(after.iter()) {
                    if b.0 != a.0 {
                        judged = false;
                    }
                    if b.1.is_empty() {
                        // no validation information was stored for it
                        want.2 += 1;
                    } else if b.1 != a.1 {
                        want.1 += 1;
                    } else {
                        want.0 += 1;
                    }
                }
                if judged {
                    rep.eval();
                    if let Ok(got) = guard(|| {
                        let r = loaded.validate_text(true);
                        (r.valid(), r.invalid(), r.missing())
                    }) {
                        if got != want {
                            rep.violation(format!("C18/edit/store-level-counts-differ/{}", modename), json!({"context": ectx, "valid_invalid_missing": [got.0, got.1, got.2], "expected": [want.0, want.1, want.2]}));
                            continue;
                        }
                    }
                }
            }
            for (b, a) in before.iter().zip(after.iter()) {
                if b.0 != a.0 || b.1.is_empty() {
                    continue;
                }
                let changed = b.1 != a.1;
                let kind = what.split('@').next().unwrap_or("");
                rep.distinct(&format!("edit/{}/{}/{}", kind, modename, if changed { "changed" } else { "unchanged" }));
                match (changed, a.2) {
                    (true, Some(false)) | (false, Some(true)) => {}
                    (true, v) => {
                        rep.violation(format!("C18/edit/changed-text-not-flagged/{}/{}/{}", modename, kind, if v.is_none() { "none" } else { "valid" }), json!({"context": ectx, "annotation": b.0, "text_before": b.1, "text_after": a.1, "verdict": v}));
                        break;
                    }
                    (false, v) => {
                        rep.violation(format!("C18/edit/unchanged-text-flagged/{}/{}/{}", modename, kind, if v.is_none() { "none" } else { "invalid" }), json!({"context": ectx, "annotation": b.0, "text": b.1, "verdict": v}));
                        break;
                    }
                }
            }
        }
    }
}
