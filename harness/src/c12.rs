//! C12 — codepoint/byte conversion is exact and tuning knobs never change answers.
//! (a) exhaustive position/byte sweeps on resources and sub-selections against a naive char_indices table,
//!     under milestone intervals {0,1,2,3,7,100} x shrink_to_fit {on,off}, before and after annotations populate
//!     the position index; (b) the same seeded history replayed under all 12 configurations must give identical
//!     observations and identical search answers.

use crate::gen::{gen_range, gen_text, Gen, GenCfg};
use crate::hist::History;
use crate::obs;
use crate::util::*;
use serde_json::{json, Value};
use stam::*;

pub const INTERVALS: [usize; 6] = [0, 1, 2, 3, 7, 100];

fn naive_table(text: &str) -> (Vec<usize>, usize) {
    // byte offset of every codepoint position 0..=len
    let mut v: Vec<usize> = text.char_indices().map(|(b, _)| b).collect();
    v.push(text.len());
    (v, text.chars().count())
}

fn sweep_resource(rep: &mut Report, store: &AnnotationStore, text: &str, cfgname: &str, phase: &str) {
    let (table, len) = naive_table(text);
    let res = store.resource("r").expect("resource");
    let ctx = |extra: Value| json!({"text": text, "config": cfgname, "phase": phase, "at": extra});
    for p in 0..=len + 2 {
        rep.eval();
        match guard(|| res.utf8byte(p)) {
            Err(pn) => rep.violation(format!("C12/resource/utf8byte/panic/{}", pn.class()), ctx(json!({"pos": p, "panic": pn.msg}))),
            Ok(Ok(b)) => {
                if p > len {
                    rep.violation(format!("C12/resource/utf8byte/ok-beyond-text/{}", phase), ctx(json!({"pos": p, "got": b, "len": len})));
                } else if b != table[p] {
                    rep.violation(format!("C12/resource/utf8byte/wrong/{}", phase), ctx(json!({"pos": p, "got": b, "want": table[p]})));
                }
            }
            Ok(Err(_)) => {
                if p <= len {
                    rep.violation(format!("C12/resource/utf8byte/err-inside-text/{}", phase), ctx(json!({"pos": p, "len": len})));
                }
            }
        }
    }
    for b in 0..=text.len() + 2 {
        rep.eval();
        let want = table.iter().position(|x| *x == b);
        match guard(|| res.utf8byte_to_charpos(b)) {
            Err(pn) => rep.violation(format!("C12/resource/utf8byte_to_charpos/panic/{}", pn.class()), ctx(json!({"byte": b, "panic": pn.msg}))),
            Ok(Ok(c)) => match want {
                Some(w) if w == c => {}
                Some(w) => rep.violation(format!("C12/resource/utf8byte_to_charpos/wrong/{}", phase), ctx(json!({"byte": b, "got": c, "want": w}))),
                None => rep.violation(
                    format!("C12/resource/utf8byte_to_charpos/ok-for-{}/{}", if b > text.len() { "byte-beyond-text" } else { "byte-inside-character" }, phase),
                    ctx(json!({"byte": b, "got": c})),
                ),
            },
            Ok(Err(_)) => {
                if want.is_some() {
                    rep.violation(format!("C12/resource/utf8byte_to_charpos/err-on-boundary/{}", phase), ctx(json!({"byte": b, "want": want})));
                }
            }
        }
    }
    // round trip is the identity
    for p in 0..=len {
        rep.eval();
        if let Ok(Ok(b)) = guard(|| res.utf8byte(p)) {
            if let Ok(Ok(c)) = guard(|| res.utf8byte_to_charpos(b)) {
                if c != p {
                    rep.violation(format!("C12/resource/roundtrip/not-identity/{}", phase), ctx(json!({"pos": p, "byte": b, "back": c})));
                }
            }
        }
    }
}

fn sweep_selection(rep: &mut Report, store: &AnnotationStore, text: &str, b: usize, e: usize, cfgname: &str, phase: &str) {
    let chars: Vec<char> = text.chars().collect();
    let sub: String = chars[b..e].iter().collect();
    let (table, len) = naive_table(&sub);
    let res = store.resource("r").expect("resource");
    let ts = match guard(|| res.textselection(&Offset::simple(b, e))) {
        Ok(Ok(ts)) => ts,
        _ => {
            rep.violation("C12/selection/textselection-failed", json!({"text": text, "range": [b, e]}));
            return;
        }
    };
    let bound = if ts.handle().is_some() { "bound" } else { "unbound" };
    let ctx = |extra: Value| json!({"text": text, "range": [b, e], "config": cfgname, "phase": phase, "bound": bound, "at": extra});
    rep.eval();
    match guard(|| ts.text().to_string()) {
        Ok(t) if t == sub => {}
        Ok(t) => rep.violation("C12/selection/text/wrong", ctx(json!({"got": t, "want": sub}))),
        Err(pn) => rep.violation(format!("C12/selection/text/panic/{}", pn.class()), ctx(json!({"panic": pn.msg}))),
    }
    for p in 0..=len + 1 {
        rep.eval();
        match guard(|| ts.utf8byte(p)) {
            Err(pn) => rep.violation(format!("C12/selection/utf8byte/panic/{}", pn.class()), ctx(json!({"pos": p, "panic": pn.msg}))),
            Ok(Ok(bb)) => {
                if p <= len && bb != table[p] {
                    rep.violation(format!("C12/selection/utf8byte/wrong/{}", phase), ctx(json!({"pos": p, "got": bb, "want": table[p]})));
                }
                // beyond the selection but inside the resource: the documentation of the trait does not say; not judged
            }
            Ok(Err(_)) => {
                if p <= len {
                    rep.violation(format!("C12/selection/utf8byte/err-inside-selection/{}", phase), ctx(json!({"pos": p, "len": len})));
                }
            }
        }
    }
    for bb in 0..=sub.len() {
        rep.eval();
        let want = table.iter().position(|x| *x == bb);
        match guard(|| ts.utf8byte_to_charpos(bb)) {
            Err(pn) => rep.violation(
                format!("C12/selection/utf8byte_to_charpos/panic/{}/{}", if want.is_some() { "on-boundary" } else { "inside-character" }, pn.class()),
                ctx(json!({"byte": bb, "panic": pn.msg})),
            ),
            Ok(Ok(c)) => match want {
                Some(w) if w == c => {}
                Some(w) => rep.violation(format!("C12/selection/utf8byte_to_charpos/wrong/{}", if b == 0 { "selection-at-text-start" } else { "selection-inside-text" }), ctx(json!({"byte": bb, "got": c, "want": w}))),
                None => rep.violation("C12/selection/utf8byte_to_charpos/ok-for-byte-inside-character", ctx(json!({"byte": bb, "got": c}))),
            },
            Ok(Err(_)) => {
                if want.is_some() {
                    rep.violation(format!("C12/selection/utf8byte_to_charpos/err-on-boundary/{}", if b == 0 { "selection-at-text-start" } else { "selection-inside-text" }), ctx(json!({"byte": bb, "want": want})));
                }
            }
        }
    }
    // the same conversions through the other entry point of a bound selection, ResultItem<TextSelection>
    if let Some(item) = ts.as_resultitem() {
        for p in 0..=len {
            rep.eval();
            match guard(|| item.utf8byte(p)) {
                Ok(Ok(bb)) if bb == table[p] => {}
                Ok(other) => rep.violation(format!("C12/selection-as-resultitem/utf8byte/wrong/{}", phase), ctx(json!({"pos": p, "got": format!("{:?}", other.ok()), "want": table[p]}))),
                Err(pn) => rep.violation(format!("C12/selection-as-resultitem/utf8byte/panic/{}", pn.class()), ctx(json!({"pos": p, "panic": pn.msg}))),
            }
        }
        for bb in 0..=sub.len() {
            rep.eval();
            let want = table.iter().position(|x| *x == bb);
            match guard(|| item.utf8byte_to_charpos(bb)) {
                Err(pn) => rep.violation(format!("C12/selection-as-resultitem/utf8byte_to_charpos/panic/{}", pn.class()), ctx(json!({"byte": bb, "panic": pn.msg}))),
                Ok(Ok(c)) => {
                    if want != Some(c) {
                        rep.violation(format!("C12/selection-as-resultitem/utf8byte_to_charpos/wrong/{}", if b == 0 { "selection-at-text-start" } else { "selection-inside-text" }), ctx(json!({"byte": bb, "got": c, "want": want})));
                    }
                }
                Ok(Err(_)) => {
                    if want.is_some() {
                        rep.violation("C12/selection-as-resultitem/utf8byte_to_charpos/err-on-boundary", ctx(json!({"byte": bb, "want": want})));
                    }
                }
            }
        }
        rep.eval();
        match guard(|| item.text().to_string()) {
            Ok(t) if t == sub => {}
            Ok(t) => rep.violation("C12/selection-as-resultitem/text/wrong", ctx(json!({"got": t, "want": sub}))),
            Err(pn) => rep.violation(format!("C12/selection-as-resultitem/text/panic/{}", pn.class()), ctx(json!({"panic": pn.msg}))),
        }
        rep.distinct(&format!("selection-as-resultitem/{}/{}", cfgname, if sub.is_ascii() { "ascii" } else { "multibyte" }));
    }
    // text_by_offset on the selection agrees with slicing
    if len > 0 {
        rep.eval();
        let (ib, ie) = (len / 3, len - len / 4);
        let want: String = chars[b + ib..b + ie].iter().collect();
        match guard(|| ts.text_by_offset(&Offset::simple(ib, ie)).map(|s| s.to_string())) {
            Ok(Ok(t)) if t == want => {}
            Ok(Ok(t)) => rep.violation("C12/selection/text_by_offset/wrong", ctx(json!({"inner": [ib, ie], "got": t, "want": want}))),
            Ok(Err(e)) => rep.violation("C12/selection/text_by_offset/err", ctx(json!({"inner": [ib, ie], "error": format!("{}", e)}))),
            Err(pn) => rep.violation(format!("C12/selection/text_by_offset/panic/{}", pn.class()), ctx(json!({"panic": pn.msg}))),
        }
    }
}

/// a resource outside any store (the low-level type), built in one step or with its text replaced afterwards
fn sweep_raw(rep: &mut Report, res: &TextResource, text: &str, cfgname: &str, how: &str) {
    let (table, len) = naive_table(text);
    let ctx = |extra: Value| json!({"text": text, "config": cfgname, "built": how, "at": extra});
    for p in 0..=len {
        rep.eval();
        match guard(|| res.utf8byte(p)) {
            Ok(Ok(b)) if b == table[p] => {}
            Ok(other) => rep.violation(format!("C12/raw-resource/utf8byte/wrong/{}", how), ctx(json!({"pos": p, "got": format!("{:?}", other.ok()), "want": table[p]}))),
            Err(pn) => rep.violation(format!("C12/raw-resource/utf8byte/panic/{}", pn.class()), ctx(json!({"pos": p, "panic": pn.msg}))),
        }
    }
    for b in 0..=text.len() {
        rep.eval();
        let want = table.iter().position(|x| *x == b);
        match guard(|| res.utf8byte_to_charpos(b)) {
            Ok(Ok(c)) if want == Some(c) => {}
            Ok(Ok(c)) => rep.violation(format!("C12/raw-resource/utf8byte_to_charpos/wrong/{}", how), ctx(json!({"byte": b, "got": c, "want": want}))),
            Ok(Err(_)) => {
                if want.is_some() {
                    rep.violation(format!("C12/raw-resource/utf8byte_to_charpos/err-on-boundary/{}", how), ctx(json!({"byte": b, "want": want})));
                }
            }
            Err(pn) => rep.violation(format!("C12/raw-resource/utf8byte_to_charpos/panic/{}", pn.class()), ctx(json!({"byte": b, "panic": pn.msg}))),
        }
    }
    rep.distinct(&format!("raw/{}/{}", cfgname, how));
}

fn conversion_case(rep: &mut Report, rng: &mut Rng, long: bool) {
    let text = if long { gen_text(rng, 90, 260) } else { gen_text(rng, 0, 24) };
    let len = text.chars().count();
    // annotation ranges used to populate the position index
    let ranges: Vec<(usize, usize)> = (0..rng.range(1, 6)).map(|_| gen_range(rng, len)).collect();
    let subs: Vec<(usize, usize)> = if len <= 8 {
        let mut v = Vec::new();
        for b in 0..=len {
            for e in b..=len {
                v.push((b, e));
            }
        }
        v
    } else {
        (0..6).map(|_| gen_range(rng, len)).collect()
    };
    for interval in INTERVALS {
        for shrink in [false, true] {
            let cfgname = format!("milestone={},shrink={}", interval, shrink);
            let mut store = AnnotationStore::new(Config::default().with_debug(false).with_milestone_interval(interval).with_shrink_to_fit(shrink)).with_id("c12");
            store.add_resource(TextResourceBuilder::new().with_id("r").with_text(text.clone())).expect("resource");
            sweep_resource(rep, &store, &text, &cfgname, "before-annotations");
            for (b, e) in &subs {
                sweep_selection(rep, &store, &text, *b, *e, &cfgname, "before-annotations");
            }
            for (i, (b, e)) in ranges.iter().enumerate() {
                store
                    .annotate(AnnotationBuilder::new().with_id(format!("a{}", i)).with_target(SelectorBuilder::textselector("r", Offset::simple(*b, *e))))
                    .expect("annotate");
            }
            sweep_resource(rep, &store, &text, &cfgname, "after-annotations");
            for (b, e) in subs.iter().chain(ranges.iter()) {
                sweep_selection(rep, &store, &text, *b, *e, &cfgname, "after-annotations");
            }
            if !shrink {
                let cfg = || Config::default().with_debug(false).with_milestone_interval(interval);
                let other = gen_text(rng, 3, 30);
                if let Ok(r) = guard(|| TextResource::from_string("raw", text.clone(), cfg())) {
                    sweep_raw(rep, &r, &text, &cfgname, "from_string");
                }
                if let Ok(r) = guard(|| TextResource::from_string("raw", other.clone(), cfg()).with_string(text.clone())) {
                    sweep_raw(rep, &r, &text, &cfgname, "text-replaced");
                }
                // a resource built on its own and then inserted into a store (the insert initialises it a second time)
                if let Ok(Ok(store2)) = guard(|| -> Result<AnnotationStore, String> {
                    let mut st = AnnotationStore::new(cfg()).with_id("c12b");
                    st.insert(TextResource::from_string("r", text.clone(), cfg())).map_err(|e| e.to_string())?;
                    Ok(st)
                }) {
                    sweep_resource(rep, &store2, &text, &cfgname, "prebuilt-then-inserted");
                }
            }
            rep.distinct(&format!("conv/{}/len{}/multibyte={}", cfgname, if len == 0 { "0".to_string() } else if len < 100 { "<100".into() } else { ">=100".into() }, text.len() != len));
        }
    }
    if rep.samples.len() < 2 {
        rep.sample(json!({"text": text, "annotation_ranges": ranges, "subselections": subs.len(), "configs": 12}));
    }
}

/// answers of the search functions whose results must not depend on the configuration
pub fn answers(store: &AnnotationStore) -> Result<Value, Panic> {
    guard(|| {
        let mut out = serde_json::Map::new();
        for r in store.resources() {
            let id = r.id().unwrap_or("").to_string();
            let seg: Vec<Value> = r.segmentation().map(|t| json!([t.begin(), t.end()])).collect();
            let known: Vec<Value> = r.textselections().map(|t| json!([t.begin(), t.end()])).collect();
            let mut finds = serde_json::Map::new();
            for needle in ["a", " ", "é", "日", "E ", "\n"] {
                let v: Vec<Value> = r.find_text(needle).take(200).map(|t| json!([t.begin(), t.end()])).collect();
                finds.insert(needle.to_string(), Value::Array(v));
            }
            let mut related = serde_json::Map::new();
            for (i, t) in r.textselections().take(6).enumerate() {
                for (name, op) in [
                    ("embeds", TextSelectionOperator::embeds()),
                    ("overlaps", TextSelectionOperator::overlaps()),
                    ("before", TextSelectionOperator::before()),
                    ("succeeds", TextSelectionOperator::succeeds()),
                ] {
                    let mut v: Vec<(usize, usize)> = t.related_text(op).map(|x| (x.begin(), x.end())).collect();
                    v.sort();
                    related.insert(format!("{}#{}:{}-{}", name, i, t.begin(), t.end()), json!(v));
                }
            }
            out.insert(id, json!({"segmentation": seg, "known": known, "find_text": finds, "related_text": related}));
        }
        Value::Object(out)
    })
}

fn knob_case(rep: &mut Report, seed: u64, k: u64, thorough: bool) {
    let mut reference: Option<(String, Value, Value)> = None;
    for interval in INTERVALS {
        for shrink in [false, true] {
            let cfgname = format!("milestone={},shrink={}", interval, shrink);
            // identical generator stream for every configuration
            let mut rng = Rng::new(seed, "c12-knobs", k);
            let mut h = History::new(interval, shrink);
            let mut cfg = GenCfg::default();
            cfg.text_max = if k % 5 == 0 { 160 } else { 30 };
            cfg.text_min = if k % 5 == 0 { 100 } else { 0 };
            let mut g = Gen::new(cfg);
            let nops = rng.range(6, if thorough { 30 } else { 18 }) as usize;
            for _ in 0..nops {
                let op = g.gen_op(&mut rng, &h.model);
                let r = h.step(&op);
                if !r.agreement.in_step() {
                    break;
                }
            }
            rep.eval();
            let o = match obs::observe(&h.store, true, true) {
                Ok(o) => o,
                Err(p) => {
                    rep.violation(format!("C12/knobs/observe/panic/{}", p.class()), json!({"config": cfgname, "panic": p.msg, "history": h.replay_json()}));
                    continue;
                }
            };
            let a = match answers(&h.store) {
                Ok(a) => a,
                Err(p) => {
                    rep.violation(format!("C12/knobs/answers/panic/{}", p.class()), json!({"config": cfgname, "panic": p.msg, "history": h.replay_json()}));
                    continue;
                }
            };
            match &reference {
                None => reference = Some((cfgname, o, a)),
                Some((refname, ro, ra)) => {
                    if let Some((path, x, y)) = first_diff(ro, &o, "") {
                        rep.violation(
                            format!("C12/knobs/observation-differs{}", crate::hist::path_class(&path)),
                            json!({"configs": [refname, cfgname], "path": path, "a": x, "b": y, "history": h.replay_json()}),
                        );
                    }
                    if let Some((path, x, y)) = first_diff(ra, &a, "") {
                        let what = path.split('/').nth(2).unwrap_or("").to_string();
                        rep.violation(
                            format!("C12/knobs/answer-differs/{}", what),
                            json!({"configs": [refname, cfgname], "path": path, "a": x, "b": y, "history": h.replay_json()}),
                        );
                    }
                }
            }
            if interval == 100 && shrink {
                rep.distinct(&format!("knobs/{}", h.model.shape()));
            }
        }
    }
}

pub fn run(p: &Params, rep: &mut Report) {
    rep.rule = "(a) for seeded texts over 1-4 byte codepoints (short: every sub-range; long 90-260 codepoints so that interval 100 matters) and each of 12 configurations (milestone interval 0,1,2,3,7,100 x shrink_to_fit), before and after annotations populate the position index: every position 0..=len+2 through utf8byte, every byte offset 0..=bytes+2 through utf8byte_to_charpos, round trip, on the resource (in a store, and the low-level TextResource built in one step or with its text replaced, and a prebuilt resource inserted into a store) and on sub-selections (bound and unbound; bound ones also through ResultItem<TextSelection>), against a naive char_indices table; (b) the same seeded op-history replayed under the 12 configurations must yield identical full observations (all lookups) and identical segmentation / find_text / related_text answers. distinct_nontrivial = distinct (configuration, length class, multibyte?) cells + distinct store shapes compared".into();
    rep.assumptions = vec!["utf8byte on a selection for a position beyond the selection but inside the resource is not judged (undocumented)".into()];
    let nconv: u64 = if p.thorough { 1500 } else { 200 };
    let nknob: u64 = if p.thorough { 3000 } else { 400 };
    for k in p.cases(nconv + nknob) {
        rep.current_case = p.case_coord(k);
        rep.cases += 1;
        if k < nconv {
            let mut rng = Rng::new(p.seed, "c12-conv", k);
            conversion_case(rep, &mut rng, k % 4 == 3);
        } else {
            knob_case(rep, p.seed, k - nconv, p.thorough);
        }
    }
}
