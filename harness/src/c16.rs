//! C16 — transposition preserves text.
//! Oracle: ground truth by construction. Two (or three) texts are assembled from a shared list of fragments
//! with noise in between, so for every source range the generator knows whether it is covered by the
//! transposition and where each piece must land on the other side(s).

use crate::c14::{leftover, snapshot};
use crate::util::*;
use serde_json::{json, Value};
use stam::*;

const FRAG_ALPHA: [char; 12] = ['a', 'b', 'c', 'd', 'e', 'é', 'ß', '日', '😀', 'x', 'y', 'z'];
const NOISE_ALPHA: [char; 5] = [' ', '-', '\n', '.', '·'];

struct Setup {
    texts: Vec<String>,
    /// per side: range of fragment i (fragment order of side 0), in codepoints
    frags: Vec<Vec<(usize, usize)>>,
    nfrag: usize,
    complex: bool,
    /// unrelated annotations (side, begin, end) made before the transposition exists: the text-selection handles of the
    /// sides are then not in step
    prior: Vec<(usize, usize, usize)>,
}

fn gen_setup(rng: &mut Rng, thorough: bool) -> Setup {
    let nsides = if rng.chance(1, 4) { 3 } else { 2 };
    let complex = rng.chance(4, 5);
    let nfrag = if complex { rng.range(1, if thorough { 5 } else { 4 }) as usize } else { 1 };
    let fragments: Vec<String> = (0..nfrag).map(|_| (0..rng.range(1, 6)).map(|_| *rng.pick(&FRAG_ALPHA[..])).collect()).collect();
    let mut texts = Vec::new();
    let mut frags = Vec::new();
    for side in 0..nsides {
        let mut order: Vec<usize> = (0..nfrag).collect();
        if side > 0 && rng.chance(1, 2) {
            rng.shuffle(&mut order);
        }
        let mut text = String::new();
        let mut pos = vec![(0usize, 0usize); nfrag];
        let noise = |rng: &mut Rng, allow_empty: bool| -> String {
            let n = if allow_empty && rng.chance(1, 2) { 0 } else { rng.range(1, 3) };
            (0..n).map(|_| *rng.pick(&NOISE_ALPHA[..])).collect()
        };
        text += &noise(rng, true);
        for (k, fi) in order.iter().enumerate() {
            let b = text.chars().count();
            text += &fragments[*fi];
            pos[*fi] = (b, text.chars().count());
            // adjacent fragments (no noise in between) make re-segmentation possible
            text += &noise(rng, k + 1 < order.len());
        }
        texts.push(text);
        frags.push(pos);
    }
    let mut prior = Vec::new();
    if rng.chance(1, 2) {
        for _ in 0..rng.range(1, 3) {
            let side = rng.below(texts.len());
            let len = texts[side].chars().count();
            if len >= 1 {
                let b = rng.below(len);
                let e = b + 1 + rng.below(len - b);
                prior.push((side, b, e));
            }
        }
    }
    Setup { texts, frags, nfrag, complex, prior }
}

fn build(setup: &Setup) -> Result<AnnotationStore, String> {
    let mut store = AnnotationStore::new(Config::default().with_debug(false)).with_id("c16");
    for (i, t) in setup.texts.iter().enumerate() {
        store.add_resource(TextResourceBuilder::new().with_id(format!("r{}", i)).with_text(t.clone())).map_err(|e| e.to_string())?;
    }
    for (i, (side, b, e)) in setup.prior.iter().enumerate() {
        store.annotate(AnnotationBuilder::new().with_id(format!("prior{}", i)).with_target(SelectorBuilder::textselector(format!("r{}", side), Offset::simple(*b, *e))).with_data("s", "type", "prior")).map_err(|e| e.to_string())?;
    }
    let tdata = |b: AnnotationBuilder<'static>| b.with_data("https://w3id.org/stam/extensions/stam-transpose/", "Transposition", DataValue::Null);
    if setup.complex {
        for side in 0..setup.texts.len() {
            let sels: Vec<SelectorBuilder> = (0..setup.nfrag).map(|f| SelectorBuilder::textselector(format!("r{}", side), Offset::simple(setup.frags[side][f].0, setup.frags[side][f].1))).collect();
            // (the enum variant for even sides, the constructor function for odd ones)
            let target = if sels.len() == 1 { sels.into_iter().next().unwrap() } else if side % 2 == 0 { SelectorBuilder::DirectionalSelector(sels) } else { SelectorBuilder::directionalselector(sels) };
            store.annotate(AnnotationBuilder::new().with_id(format!("side{}", side)).with_target(target).with_data("s", "type", "side")).map_err(|e| e.to_string())?;
        }
        let sides: Vec<SelectorBuilder> = (0..setup.texts.len()).map(|s| SelectorBuilder::annotationselector(format!("side{}", s), None)).collect();
        store.annotate(tdata(AnnotationBuilder::new().with_id("via").with_target(SelectorBuilder::DirectionalSelector(sides)))).map_err(|e| e.to_string())?;
    } else {
        let sels: Vec<SelectorBuilder> = (0..setup.texts.len()).map(|s| SelectorBuilder::textselector(format!("r{}", s), Offset::simple(setup.frags[s][0].0, setup.frags[s][0].1))).collect();
        store.annotate(tdata(AnnotationBuilder::new().with_id("via").with_target(SelectorBuilder::DirectionalSelector(sels)))).map_err(|e| e.to_string())?;
    }
    Ok(store)
}

/// for a source range on side `from`: the pieces per fragment it is made of, or None if some position is not inside a fragment
fn pieces(setup: &Setup, from: usize, range: (usize, usize)) -> Option<Vec<(usize, (usize, usize))>> {
    let mut out = Vec::new();
    if range.0 == range.1 {
        // a zero-width source: covered when it lies inside or at an edge of a fragment (sources on the seam of two fragments are not generated)
        let f = (0..setup.nfrag).find(|f| setup.frags[from][*f].0 <= range.0 && range.0 <= setup.frags[from][*f].1)?;
        return Some(vec![(f, range)]);
    }
    let mut cur = range.0;
    while cur < range.1 {
        let f = (0..setup.nfrag).find(|f| setup.frags[from][*f].0 <= cur && cur < setup.frags[from][*f].1)?;
        let e = setup.frags[from][f].1.min(range.1);
        out.push((f, (cur, e)));
        cur = e;
    }
    Some(out)
}

fn map_piece(setup: &Setup, from: usize, to: usize, f: usize, piece: (usize, usize)) -> (usize, usize) {
    let rel = (piece.0 - setup.frags[from][f].0, piece.1 - setup.frags[from][f].0);
    (setup.frags[to][f].0 + rel.0, setup.frags[to][f].0 + rel.1)
}

fn chars_of(s: &str, b: usize, e: usize) -> String {
    s.chars().skip(b).take(e - b).collect()
}

fn ann_ranges(a: &ResultItem<Annotation>) -> Vec<(usize, usize, usize)> {
    a.textselections().map(|t| (t.resource().handle().as_usize(), t.begin(), t.end())).collect()
}

fn one_source(rep: &mut Report, rng: &mut Rng, setup: &Setup, store: &mut AnnotationStore, sd: &Value, n: usize) {
    let from = if rng.chance(3, 4) { 0 } else { rng.below(setup.texts.len()) };
    let len = setup.texts[from].chars().count();
    // 1 or 2 source ranges; mostly near fragments
    let nranges = if rng.chance(1, 4) { 2 } else { 1 };
    let mut ranges: Vec<(usize, usize)> = Vec::new();
    for _ in 0..nranges {
        let (b, e) = if rng.chance(3, 4) {
            let f = rng.below(setup.nfrag);
            let fr = setup.frags[from][f];
            let b = fr.0 + rng.below(fr.1 - fr.0);
            let maxe = if rng.chance(1, 2) { fr.1 } else { len };
            (b, b + 1 + rng.below((maxe - b).max(1)).min(6))
        } else {
            let b = rng.below(len.max(1));
            (b, (b + 1 + rng.below(4)).min(len))
        };
        if b < e && e <= len && !ranges.iter().any(|r| !(e <= r.0 || b >= r.1)) {
            ranges.push((b, e));
        }
    }
    // now and then a single zero-width source at the begin, inside or at the END of a fragment
    if rng.chance(1, 8) {
        let f = rng.below(setup.nfrag);
        let fr = setup.frags[from][f];
        let pos = *rng.pick(&[fr.0, fr.1, (fr.0 + fr.1) / 2, fr.1]);
        let touching = (0..setup.nfrag).filter(|g| setup.frags[from][*g].0 <= pos && pos <= setup.frags[from][*g].1).count();
        if touching == 1 {
            ranges = vec![(pos, pos)];
        }
    }
    if ranges.is_empty() {
        return;
    }
    ranges.sort();
    let expected: Option<Vec<Vec<(usize, (usize, usize))>>> = ranges.iter().map(|r| pieces(setup, from, *r)).collect();
    let with_id = rng.chance(2, 3);
    let sid = format!("src{}", n);
    let sels: Vec<SelectorBuilder> = ranges.iter().map(|r| SelectorBuilder::textselector(format!("r{}", from), Offset::simple(r.0, r.1))).collect();
    let target = if sels.len() == 1 { sels.into_iter().next().unwrap() } else { SelectorBuilder::DirectionalSelector(sels) };
    let mut b = AnnotationBuilder::new().with_target(target).with_data("s", "n", n as isize);
    if with_id {
        b = b.with_id(sid.clone());
    }
    let Ok(src_handle) = store.annotate(b) else { return };
    let nt = format!("nt{}", n);
    let target_ids: Vec<String> = (0..setup.texts.len() - 1).map(|i| format!("t{}_{}", n, i)).collect();
    // configuration knobs: 0 = default, 1 = allow a simple transposition as output, 2 = no transposition annotation, 3 = no resegmentation annotation
    let knob = *rng.pick(&[0usize, 0, 0, 0, 1, 2, 3]);
    let config = TransposeConfig {
        transposition_id: Some(nt.clone()),
        target_side_ids: target_ids.clone(),
        resegmentation_id: Some(format!("reseg{}", n)),
        source_side: if rng.chance(1, 4) { TranspositionSide::ByIndex(from) } else { TranspositionSide::Auto },
        allow_simple: knob == 1,
        no_transposition: knob == 2,
        no_resegmentation: knob == 3,
        // an id to give to the source side of the new transposition (not the id of an existing annotation)
        source_side_id: if rng.chance(1, 3) { Some(format!("srcside{}", n)) } else { None },
        ..Default::default()
    };
    let ctx = |extra: Value| json!({"setup": sd, "source_side": from, "source_ranges": ranges, "source_has_id": with_id, "detail": extra});
    let covered = expected.is_some();
    let cls = format!("{}/{}{}{}{}", if setup.complex { "complex" } else { "simple" }, if covered { "covered" } else { "not-covered" }, if ranges.len() > 1 { "/multi-range" } else { "" }, if expected.as_ref().map(|e| e.iter().any(|p| p.len() > 1)).unwrap_or(false) { "/resegmented" } else { "" }, ["", "/allow-simple", "/no-transposition", "/no-resegmentation"][knob]);
    let before = snapshot(store);
    rep.eval();
    let result = guard(|| {
        let via = store.annotation("via").expect("via");
        let src = store.annotation(src_handle).expect("source");
        src.transpose(&via, config).map_err(|e| e.to_string())
    });
    let builders = match result {
        Err(p) => {
            rep.violation(format!("C16/transpose/panic/{}/{}", cls, p.class()), ctx(json!({"panic": p.msg, "at": p.loc})));
            return;
        }
        Ok(Err(e)) => {
            rep.distinct(&format!("refused/{}", cls));
            rep.count(&format!("refused/{}", cls));
            if covered {
                rep.violation(format!("C16/transpose/refuses-covered-source/{}", cls), ctx(json!({"error": e, "expected_pieces": expected})));
            } else if let (Some(b), Some(a)) = (before, snapshot(store)) {
                if let Some((c, d)) = leftover(&b, &a) {
                    rep.violation(format!("C16/transpose/refused-but-store-changed/{}", c), ctx(json!({"error": e, "difference": d})));
                }
            }
            return;
        }
        Ok(Ok(b)) => b,
    };
    if !covered {
        rep.violation(format!("C16/transpose/accepts-source-outside-the-transposition/{}", cls), ctx(json!({"builders": builders.len()})));
        return;
    }
    let expected = expected.unwrap();
    if rep.samples.len() < 3 {
        rep.sample(json!({"setup": sd, "source_side": from, "source_ranges": ranges, "expected_pieces": expected, "builders_returned": builders.len()}));
    }
    rep.distinct(&format!("transposed/{}/sides{}", cls, setup.texts.len()));
    rep.count(&format!("transposed/{}/sides{}", cls, setup.texts.len()));
    // adding the returned annotations succeeds
    rep.eval();
    match guard(|| store.annotate_from_iter(builders).map(|v| v.len()).map_err(|e| e.to_string())) {
        Err(p) => {
            rep.violation(format!("C16/annotate-result/panic/{}/{}", cls, p.class()), ctx(json!({"panic": p.msg, "at": p.loc})));
            return;
        }
        Ok(Err(e)) => {
            rep.violation(format!("C16/annotate-result/refused/{}/{}", cls, normalise_msg(&e.chars().take(60).collect::<String>())), ctx(json!({"error": e})));
            return;
        }
        Ok(Ok(_)) => {}
    }
    let source_text: Vec<String> = expected.iter().flatten().map(|(_, p)| chars_of(&setup.texts[from], p.0, p.1)).collect();
    if knob == 1 && store.annotation(target_ids[0].as_str()).is_none() {
        // a simple transposition as output: one annotation whose text selections are the source piece and its image on every other side
        rep.eval();
        let Some(newt) = store.annotation(nt.as_str()) else {
            rep.violation(format!("C16/new-transposition-missing/{}", cls), ctx(json!({"id": nt})));
            return;
        };
        let mut got = ann_ranges(&newt);
        got.sort();
        let mut want: Vec<(usize, usize, usize)> = Vec::new();
        for (f, p) in expected.iter().flatten() {
            for to in 0..setup.texts.len() {
                let m = if to == from { *p } else { map_piece(setup, from, to, *f, *p) };
                want.push((to, m.0, m.1));
            }
        }
        want.sort();
        rep.count(&format!("simple-output/{}", cls));
        if got != want {
            rep.violation(format!("C16/simple-output/selections-differ/{}", cls), ctx(json!({"got": got, "expected": want})));
        } else if newt.textselections().any(|t| t.text() != source_text.concat() && expected.iter().flatten().count() == 1) {
            rep.violation(format!("C16/simple-output/text-differs/{}", cls), ctx(json!({"source_text": source_text})));
        }
        return;
    }
    // the transposed annotation(s): right resource, expected pieces in order, identical text piece by piece
    let mut k = 0;
    for to in 0..setup.texts.len() {
        if to == from {
            continue;
        }
        let tid = &target_ids[k];
        k += 1;
        rep.eval();
        let Some(t) = store.annotation(tid.as_str()) else {
            rep.violation(format!("C16/transposed-annotation-missing/{}", cls), ctx(json!({"id": tid})));
            return;
        };
        let got = ann_ranges(&t);
        let want: Vec<(usize, usize, usize)> = expected.iter().flatten().map(|(f, p)| {
            let m = map_piece(setup, from, to, *f, *p);
            (to, m.0, m.1)
        }).collect();
        let got_text: Vec<String> = t.textselections().map(|x| x.text().to_string()).collect();
        if got.iter().any(|g| g.0 != to) {
            rep.violation(format!("C16/transposed/in-wrong-resource/{}", cls), ctx(json!({"target_side": to, "got": got, "expected": want})));
            return;
        }
        if got_text != source_text {
            let kind = if got_text.concat() == source_text.concat() { "pieces-segmented-differently" } else { let mut a = got_text.clone(); a.sort(); let mut b = source_text.clone(); b.sort(); if a == b { "pieces-out-of-order" } else { "text-differs" } };
            rep.violation(format!("C16/transposed/{}/{}", kind, cls), ctx(json!({"target_side": to, "got_text": got_text, "source_text": source_text, "got": got, "expected": want})));
            return;
        }
        if got != want {
            rep.violation(format!("C16/transposed/offsets-differ/{}", cls), ctx(json!({"target_side": to, "got": got, "expected": want})));
            return;
        }
    }
    if knob == 2 {
        // no transposition annotation was asked for: there must be none, and nothing to transpose back over
        rep.eval();
        rep.count(&format!("no-transposition/{}", cls));
        if store.annotation(nt.as_str()).is_some() {
            rep.violation(format!("C16/no-transposition/transposition-annotation-present/{}", cls), ctx(json!({"id": nt})));
        }
        return;
    }
    // the new transposition links sides with identical text
    rep.eval();
    let Some(newt) = store.annotation(nt.as_str()) else {
        rep.violation(format!("C16/new-transposition-missing/{}", cls), ctx(json!({"id": nt})));
        return;
    };
    let side_texts: Vec<Vec<String>> = {
        let sides: Vec<ResultItem<Annotation>> = newt.annotations_in_targets(AnnotationDepth::One).collect();
        if sides.is_empty() {
            // simple transposition: text selections alternate per side
            newt.textselections().map(|t| vec![t.text().to_string()]).collect()
        } else {
            sides.iter().map(|s| s.textselections().map(|t| t.text().to_string()).collect()).collect()
        }
    };
    if side_texts.len() < 2 || side_texts.iter().any(|s| s.concat() != side_texts[0].concat()) {
        rep.violation(format!("C16/new-transposition/sides-differ/{}", cls), ctx(json!({"side_texts": side_texts})));
        return;
    }
    // transposing back over the new transposition returns the original offsets
    rep.eval();
    let back_id = format!("back{}", n);
    let cfg2 = TransposeConfig { transposition_id: Some(format!("nt_back{}", n)), target_side_ids: (0..setup.texts.len()).map(|i| format!("{}_{}", back_id, i)).collect(), resegmentation_id: Some(format!("reseg_back{}", n)), ..Default::default() };
    let first_target = target_ids[0].clone();
    let r = guard(|| {
        let via2 = store.annotation(nt.as_str()).expect("new transposition");
        let src2 = store.annotation(first_target.as_str()).expect("transposed");
        src2.transpose(&via2, cfg2).map_err(|e| e.to_string())
    });
    match r {
        Err(p) => rep.violation(format!("C16/transpose-back/panic/{}/{}", cls, p.class()), ctx(json!({"panic": p.msg, "at": p.loc}))),
        Ok(Err(e)) => rep.violation(format!("C16/transpose-back/refused/{}", cls), ctx(json!({"error": e}))),
        Ok(Ok(builders)) => {
            let ids_before: Vec<String> = store.annotations().filter_map(|a| a.id().map(|s| s.to_string())).collect();
            match guard(|| store.annotate_from_iter(builders).map_err(|e| e.to_string())) {
                Ok(Ok(handles)) => {
                    // among the new annotations, one lies in the source resource and must select the original pieces
                    let want: Vec<(usize, usize, usize)> = expected.iter().flatten().map(|(_, p)| (from, p.0, p.1)).collect();
                    let mut found = false;
                    let mut seen = Vec::new();
                    for h in handles {
                        if let Some(a) = store.annotation(h) {
                            if a.id().map(|i| ids_before.contains(&i.to_string())).unwrap_or(false) {
                                continue;
                            }
                            let r = ann_ranges(&a);
                            if !r.is_empty() && r.iter().all(|x| x.0 == from) && a.as_ref().target().kind() != SelectorKind::AnnotationSelector {
                                seen.push(r.clone());
                                if r == want {
                                    found = true;
                                }
                            }
                        }
                    }
                    rep.distinct(&format!("back/{}", cls));
                    rep.count(&format!("transposed-back/{}", cls));
                    if !found {
                        rep.violation(format!("C16/transpose-back/offsets-differ/{}", cls), ctx(json!({"expected": want, "annotations_in_source_resource": seen})));
                    }
                }
                Ok(Err(e)) => rep.violation(format!("C16/transpose-back/annotate-refused/{}", cls), ctx(json!({"error": e}))),
                Err(p) => rep.violation(format!("C16/transpose-back/annotate-panic/{}/{}", cls, p.class()), ctx(json!({"panic": p.msg}))),
            }
        }
    }
}

pub fn run(p: &Params, rep: &mut Report) {
    rep.rule = "seeded setups: 1-5 fragments of 1-6 codepoints (1-4 byte) placed with 0-3 codepoints of noise between them in 2-3 texts, re-ordered on the other sides; the transposition is simple (DirectionalSelector of TextSelectors, one fragment) or complex (one DirectionalSelector annotation per side linked by a DirectionalSelector of AnnotationSelectors); sources are annotations (with or without id) of 1-2 ranges inside one fragment, spanning adjacent fragments (re-segmentation), partly or wholly outside; source side Auto or ByIndex; ids pinned through TransposeConfig. Ground truth from the construction: covered or not, and the expected pieces on every other side. distinct_nontrivial = distinct (simple/complex, covered, multi-range, resegmented, number of sides, stage) reached".into();
    rep.assumptions = vec!["a source is covered iff every position of every source range lies inside a fragment of its side (ranges may run across fragments that are adjacent in the text)".into()];
    let total: u64 = if p.thorough { 20000 } else { 1500 };
    for k in p.cases(total) {
        rep.current_case = p.case_coord(k);
        rep.cases += 1;
        let mut rng = Rng::new(p.seed, "c16", k);
        let setup = gen_setup(&mut rng, p.thorough);
        let sd = json!({"texts": setup.texts, "fragments_per_side": setup.frags, "complex": setup.complex});
        let mut store = match guard(|| build(&setup)) {
            Ok(Ok(s)) => s,
            Ok(Err(e)) => {
                rep.count(&format!("setup-refused/{}", normalise_msg(&e.chars().take(50).collect::<String>())));
                continue;
            }
            Err(pn) => {
                rep.violation(format!("C16/setup/panic/{}", pn.class()), json!({"setup": sd, "panic": pn.msg}));
                continue;
            }
        };
        let sd = json!({"texts": setup.texts, "fragments_per_side": setup.frags, "complex": setup.complex, "prior_annotations": setup.prior});
        for n in 0..(if p.thorough { 12 } else { 8 }) {
            // the reads of the oracle go through the library too: a panic anywhere in there is a finding about the store, not a harness failure
            if let Err(pn) = guard(|| one_source(rep, &mut rng, &setup, &mut store, &sd, n)) {
                rep.violation(format!("C16/panic-while-examining-the-result/{}", pn.class()), json!({"setup": sd, "panic": pn.msg, "at": pn.loc}));
                break;
            }
        }
    }
}
