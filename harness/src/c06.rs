//! C06 — related-text search returns exactly the selections in the relation.
//! Oracle: brute force over all known text selections of the resource with the library's own public
//! `test` (whose meaning is C13's business); results compared as multisets through all four entry points.

use crate::c13::{all_variants, geom, OpV};
use crate::util::*;
use serde_json::json;
use stam::*;

type R = (usize, usize);

fn gen_ws_text(rng: &mut Rng, len: usize) -> String {
    // words separated by whitespace runs of 0-12
    let mut s = String::new();
    while s.chars().count() < len {
        for _ in 0..rng.range(1, 4) {
            s.push(*rng.pick(&['a', 'b', 'é', '日', 'E']));
        }
        let ws = *rng.pick(&[0usize, 1, 1, 1, 2, 3, 12]);
        for _ in 0..ws {
            s.push(*rng.pick(&[' ', ' ', '\n', '\t']));
        }
    }
    s.chars().take(len).collect()
}

fn gen_selections(rng: &mut Rng, len: usize, n: usize) -> Vec<R> {
    let mut v: Vec<R> = Vec::new();
    // structural ones: nested, crossing, adjacent, zero-width, touching 0 and the text end, both halves
    let mid = len / 2;
    let cands = [
        (0, len),
        (0, mid),
        (mid, len),
        (0, 0),
        (len, len),
        (mid, mid),
        (1.min(len), (mid + 1).min(len)),
        (mid.saturating_sub(1), len),
        (len.saturating_sub(2), len),
        (0, 2.min(len)),
        (2.min(len), 4.min(len)),
        (4.min(len), 6.min(len)),
    ];
    for c in cands {
        if rng.chance(1, 2) && c.0 <= c.1 && !v.contains(&c) {
            v.push(c);
        }
    }
    while v.len() < n {
        let b = rng.below(len + 1);
        let e = b + rng.below((len - b).min(8) + 1);
        if !v.contains(&(b, e)) {
            v.push((b, e));
        }
    }
    v.truncate(n.max(3));
    v
}

struct Case {
    store: AnnotationStore,
    text: String,
    sels: Vec<R>,
    /// annotations with several selections (Directional: the order given is kept): id and ranges
    multi: Vec<(String, Vec<R>)>,
}

fn build(rng: &mut Rng, thorough: bool, milestone: usize) -> Case {
    let len = rng.range(8, if thorough { 60 } else { 40 }) as usize;
    let text = gen_ws_text(rng, len);
    let n = rng.range(4, 14) as usize;
    let sels = gen_selections(rng, len, n);
    let mut store = AnnotationStore::new(Config::default().with_debug(false).with_milestone_interval(milestone)).with_id("c06");
    store.add_resource(TextResourceBuilder::new().with_id("r").with_text(text.clone())).expect("resource");
    for (i, (b, e)) in sels.iter().enumerate() {
        store
            .annotate(AnnotationBuilder::new().with_id(format!("a{}", i)).with_target(SelectorBuilder::textselector("r", Offset::simple(*b, *e))).with_data("s", "n", i as isize))
            .expect("annotate");
    }
    let mut multi = Vec::new();
    for m in 0..2 {
        let k = rng.range(2, 3) as usize;
        let mut picks: Vec<R> = Vec::new();
        while picks.len() < k.min(sels.len()) {
            let r = *rng.pick(&sels);
            if !picks.contains(&r) {
                picks.push(r);
            }
        }
        let id = format!("multi{}", m);
        let target = SelectorBuilder::DirectionalSelector(picks.iter().map(|(b, e)| SelectorBuilder::textselector("r", Offset::simple(*b, *e))).collect());
        if store.annotate(AnnotationBuilder::new().with_id(id.clone()).with_target(target).with_data("s", "multi", m as isize)).is_ok() {
            multi.push((id, picks));
        }
    }
    Case { store, text, sels, multi }
}

fn refclass(refs: &[R], len: usize) -> String {
    let second_half = refs.iter().any(|r| r.0 > len / 2);
    let zero = refs.iter().any(|r| r.0 == r.1);
    let at_end = refs.iter().any(|r| r.1 == len);
    format!("n{}{}{}{}", refs.len(), if second_half { "+2ndhalf" } else { "" }, if zero { "+zero" } else { "" }, if at_end { "+end" } else { "" })
}

fn candclass(c: R, refs: &[R], len: usize) -> String {
    format!("{}{}{}", geom(c, refs[0]), if c.1 == len { "+cand-at-text-end" } else { "" }, if c.0 == 0 { "+cand-at-text-begin" } else { "" })
}

fn compare(rep: &mut Report, case: &Case, entry: &str, op: &OpV, refs: &[R], got: Result<Vec<R>, Panic>, expected: &[R]) {
    let len = case.text.chars().count();
    rep.eval();
    let ctx = |extra: serde_json::Value| json!({"text": case.text, "known": case.sels, "reference": refs, "operator": op.name(), "entry": entry, "detail": extra});
    match got {
        Err(p) => rep.violation(
            format!("C06/{}/{}/panic/{}", entry, op.name(), p.class()),
            ctx(json!({"panic": p.msg, "at": p.loc})),
        ),
        Ok(got) => {
            let mut g = got.clone();
            g.sort();
            let mut e = expected.to_vec();
            e.sort();
            if !e.is_empty() {
                rep.distinct(&format!("{}/{}/{}", entry, op.name(), refclass(refs, len)));
            }
            if g == e {
                return;
            }
            // duplicates?
            let mut gd = g.clone();
            gd.dedup();
            if gd.len() != g.len() && gd == e {
                rep.violation(
                    format!("C06/{}/{}/duplicate/ref:{}", entry, op.name(), refclass(refs, len)),
                    ctx(json!({"got": got, "expected": e})),
                );
                return;
            }
            for m in e.iter().filter(|x| !g.contains(x)) {
                rep.violation(
                    format!("C06/{}/{}/missing/ref:{}/cand:{}", entry, op.name(), refclass(refs, len), candclass(*m, refs, len)),
                    ctx(json!({"missing": m, "got": got, "expected": e})),
                );
                break;
            }
            for x in g.iter().filter(|x| !e.contains(x)) {
                rep.violation(
                    format!("C06/{}/{}/extra/ref:{}/cand:{}", entry, op.name(), refclass(refs, len), candclass(*x, refs, len)),
                    ctx(json!({"extra": x, "got": got, "expected": e})),
                );
                break;
            }
        }
    }
}

fn search_case(rep: &mut Report, rng: &mut Rng, ops: &[OpV], thorough: bool) {
    let milestone = *rng.pick(&[100usize, 100, 0, 3]);
    let case = build(rng, thorough, milestone);
    let store = &case.store;
    let res = store.resource("r").expect("resource");
    let known: Vec<ResultTextSelection> = res.as_ref().textselections_unsorted().filter_map(|t| t.handle()).filter_map(|h| res.textselection_by_handle(h).ok()).collect();
    // references: 3 single selections, 2 sets of size 2-3
    let mut references: Vec<Vec<usize>> = Vec::new();
    for _ in 0..3 {
        references.push(vec![rng.below(known.len())]);
    }
    for _ in 0..2 {
        let n = rng.range(2, 3) as usize;
        let mut idx: Vec<usize> = Vec::new();
        while idx.len() < n.min(known.len()) {
            let i = rng.below(known.len());
            if !idx.contains(&i) {
                idx.push(i);
            }
        }
        references.push(idx);
    }
    let mut references: Vec<(Vec<usize>, Option<String>)> = references.into_iter().map(|r| (r, None)).collect();
    for (id, ranges) in &case.multi {
        let idx: Vec<usize> = ranges.iter().filter_map(|r| known.iter().position(|k| (k.begin(), k.end()) == *r)).collect();
        if idx.len() == ranges.len() {
            references.push((idx, Some(id.clone())));
        }
    }
    for (refidx, multi_id) in references {
        let refs: Vec<R> = refidx.iter().map(|i| (known[*i].begin(), known[*i].end())).collect();
        for op in ops {
            // the operator as a literal, or made with the constructor functions and modifiers (every other time)
            let o = if (refidx.len() + op.kind as usize) % 2 == 0 { op.built() } else { op.to_op() };
            let plain_equals = op.kind == 0 && !op.negate && !op.all;
            // expected by brute force with the public test()
            let refset: ResultTextSelectionSet = refidx.iter().map(|i| known[*i].clone()).collect();
            let expected: Result<Vec<R>, Panic> = guard(|| {
                if plain_equals {
                    return refs.clone();
                }
                known
                    .iter()
                    .enumerate()
                    .filter(|(i, k)| !refidx.contains(i) && refset.test(&op.to_op(), k))
                    .map(|(_, k)| (k.begin(), k.end()))
                    .collect()
            });
            let Ok(expected) = expected else {
                // a panic inside test() is C13's business
                rep.count("test-panicked");
                continue;
            };
            // entry point 1: ResultTextSelectionSet::related_text
            let refset2: ResultTextSelectionSet = refidx.iter().map(|i| known[*i].clone()).collect();
            let got = guard(move || refset2.related_text(o).map(|t| (t.begin(), t.end())).collect::<Vec<R>>());
            compare(rep, &case, "set", op, &refs, got, &expected);
            // entry point 2: ResultItem<TextResource>::related_text
            let tset: TextSelectionSet = refidx.iter().map(|i| known[*i].clone()).collect();
            let got = guard(|| res.related_text(o, tset).map(|t| (t.begin(), t.end())).collect::<Vec<R>>());
            compare(rep, &case, "resource", op, &refs, got, &expected);
            // entry point 5: the iterator adaptor (an iterator of selections).related_text(): related to ANY of them -
            // the single-reference answers (entry point 3, judged on their own) merged in textual order, each once
            {
                let merged: Result<Vec<R>, Panic> = guard(|| {
                    let mut v: Vec<R> = Vec::new();
                    for i in &refidx {
                        v.extend(known[*i].related_text(o).map(|t| (t.begin(), t.end())));
                    }
                    v.sort();
                    v.dedup();
                    v
                });
                if let Ok(merged) = merged {
                    let got = guard(|| refidx.iter().map(|i| known[*i].clone()).related_text(o).map(|t| (t.begin(), t.end())).collect::<Vec<R>>());
                    compare(rep, &case, "iterator", op, &refs, got, &merged);
                }
            }
            // entry points 6 and 7: an annotation with several selections (taken jointly, as a set), directly and through the
            // adaptor on an iterator of annotations
            if let Some(a) = multi_id.as_ref().and_then(|id| store.annotation(id.as_str())) {
                let got = guard(|| a.related_text(o).map(|t| (t.begin(), t.end())).collect::<Vec<R>>());
                compare(rep, &case, "multi-annotation", op, &refs, got, &expected);
                let got = guard(|| std::iter::once(a.clone()).related_text(o).map(|t| (t.begin(), t.end())).collect::<Vec<R>>());
                compare(rep, &case, "annotations-iterator", op, &refs, got, &expected);
            }
            if refidx.len() == 1 {
                // entry point 3: ResultTextSelection::related_text
                let got = guard(|| known[refidx[0]].related_text(o).map(|t| (t.begin(), t.end())).collect::<Vec<R>>());
                compare(rep, &case, "selection", op, &refs, got, &expected);
                // entry point 4: ResultItem<Annotation>::related_text (the annotation on exactly this selection)
                if let Some(a) = known[refidx[0]].annotations().next() {
                    let got = guard(|| a.related_text(o).map(|t| (t.begin(), t.end())).collect::<Vec<R>>());
                    compare(rep, &case, "annotation", op, &refs, got, &expected);
                }
            }
        }
    }
    if rep.samples.len() < 3 {
        rep.sample(json!({"text": case.text, "known": case.sels, "operators": ops.len(), "entry_points": ["ResultTextSelectionSet", "ResultItem<TextResource>", "ResultTextSelection", "ResultItem<Annotation>"]}));
    }
}

pub fn run(p: &Params, rep: &mut Report) {
    rep.rule = "seeded texts of 8-40 (60) codepoints with whitespace runs of 0-12, 4-14 known selections chosen to be nested / crossing / adjacent / zero-width / touching position 0 and the very end / lying in either half; references: single known selections, their annotations, and sets of 2-3 selections; every operator x all/negate/limit(-,0,1,3)/whitespace combination (92 variants) through ResultTextSelection::related_text, ResultItem<Annotation>::related_text, ResultTextSelectionSet::related_text, ResultItem<TextResource>::related_text the iterator adaptor on selections (related to any of them: the merged single-reference answers, each once), an annotation with 2-3 selections and the adaptor on an iterator of annotations (selections of one annotation taken jointly); expected = brute force over all known selections with the public test(), minus the reference itself (plain Equals: the reference itself). distinct_nontrivial = distinct (entry point, operator variant, reference class) with a non-empty expected result".into();
    rep.assumptions = vec![
        "the meaning of test() is judged by C13, here it is the oracle".into(),
        "references are known (bound) selections; for plain Equals the expected result is the reference selection(s) themselves".into(),
    ];
    let ops = all_variants(&[None, Some(0), Some(1), Some(3)]);
    let total: u64 = if p.thorough { 12000 } else { 4000 };
    for k in p.cases(total) {
        rep.current_case = p.case_coord(k);
        rep.cases += 1;
        let mut rng = Rng::new(p.seed, "c06", k);
        search_case(rep, &mut rng, &ops, p.thorough);
    }
}
