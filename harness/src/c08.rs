//! C08 — query results equal the meaning of their constraints, however evaluated.
//! Oracles: metamorphic relations over the same store (constraint order, conjunction = intersection,
//! disjunction = duplicate-free union, LIMIT = slice, sub-queries = nested iteration, text = built),
//! scans of the shadow model for the unambiguous constraints, twin-store differential for ADD/DELETE,
//! and unit-level monitors of the helper collections (Handles, LimitIter) against std collections.

use crate::gen::GenCfg;
use crate::hist::*;
use crate::model::*;
use crate::util::*;
use serde_json::{json, Value};
use stam::*;
use std::collections::BTreeSet;

// ---------------------------------------------------------------------------------------------
// query descriptions (owned), from which library queries are built

#[derive(Debug, Clone, PartialEq)]
pub enum OpS {
    Any,
    EqS(String),
    NeS(String),
    EqI(isize),
    Gt(isize),
    Le(isize),
    EqF(f64),
    Null,
    True,
}

impl OpS {
    fn op<'a>(&'a self) -> DataOperator<'a> {
        match self {
            OpS::Any => DataOperator::Any,
            OpS::EqS(s) => DataOperator::Equals(s.as_str().into()),
            OpS::NeS(s) => DataOperator::Not(Box::new(DataOperator::Equals(s.as_str().into()))),
            OpS::EqI(i) => DataOperator::EqualsInt(*i),
            OpS::Gt(i) => DataOperator::GreaterThan(*i),
            OpS::Le(i) => DataOperator::LessThanOrEqual(*i),
            OpS::EqF(f) => DataOperator::EqualsFloat(*f),
            OpS::Null => DataOperator::Null,
            OpS::True => DataOperator::True,
        }
    }
}

#[derive(Debug, Clone, PartialEq)]
pub enum CS {
    Id(String),
    Res(String, bool),
    Set(String, bool),
    Ann(String, bool, bool),
    Key(String, String, bool),
    KeyVal(String, String, OpS, bool),
    Val(OpS),
    Text(String, bool),
    Union(Vec<CS>),
    Limit(isize, isize),
    AnnVar(String, bool),
    ResVar(String, bool),
    SetVar(String),
    DataVar(String),
    KeyVar(String),
    TextVar(String),
    Rel(String, &'static str),
}

fn qual(meta: bool) -> SelectionQualifier {
    if meta {
        SelectionQualifier::Metadata
    } else {
        SelectionQualifier::Normal
    }
}

fn relop(name: &str) -> TextSelectionOperator {
    match name {
        "EMBEDS" => TextSelectionOperator::embeds(),
        "EMBEDDED" => TextSelectionOperator::embedded(),
        "OVERLAPS" => TextSelectionOperator::overlaps(),
        "BEFORE" => TextSelectionOperator::before(),
        "AFTER" => TextSelectionOperator::after(),
        "PRECEDES" => TextSelectionOperator::precedes(),
        _ => TextSelectionOperator::equals(),
    }
}

impl CS {
    fn constraint<'a>(&'a self) -> Constraint<'a> {
        match self {
            CS::Id(s) => Constraint::Id(s),
            CS::Res(s, m) => Constraint::TextResource(s, qual(*m), None),
            CS::Set(s, m) => Constraint::DataSet(s, qual(*m)),
            CS::Ann(s, m, r) => Constraint::Annotation(s, qual(*m), if *r { AnnotationDepth::Max } else { AnnotationDepth::One }, None),
            CS::Key(s, k, m) => Constraint::DataKey { set: s, key: k, qualifier: qual(*m) },
            CS::KeyVal(s, k, o, m) => Constraint::KeyValue { set: s, key: k, operator: o.op(), qualifier: qual(*m) },
            CS::Val(o) => Constraint::Value(o.op(), SelectionQualifier::Normal),
            CS::Text(t, nocase) => Constraint::Text(t, if *nocase { TextMode::CaseInsensitive } else { TextMode::Exact }),
            CS::Union(v) => Constraint::Union(v.iter().map(|c| c.constraint()).collect()),
            CS::Limit(b, e) => Constraint::Limit { begin: *b, end: *e },
            CS::AnnVar(v, m) => Constraint::AnnotationVariable(v, qual(*m), AnnotationDepth::One, None),
            CS::ResVar(v, m) => Constraint::ResourceVariable(v, qual(*m), None),
            CS::SetVar(v) => Constraint::DataSetVariable(v, SelectionQualifier::Normal),
            CS::DataVar(v) => Constraint::DataVariable(v, SelectionQualifier::Normal),
            CS::KeyVar(v) => Constraint::KeyVariable(v, SelectionQualifier::Normal),
            CS::TextVar(v) => Constraint::TextVariable(v),
            CS::Rel(v, o) => Constraint::TextRelation { var: v, operator: relop(o) },
        }
    }
    fn kind(&self) -> String {
        let m = |b: &bool| if *b { "-META" } else { "" };
        match self {
            CS::Id(_) => "ID".into(),
            CS::Res(_, x) => format!("RESOURCE{}", m(x)),
            CS::Set(_, x) => format!("DATASET{}", m(x)),
            CS::Ann(_, x, r) => format!("ANNOTATION{}{}", m(x), if *r { "-REC" } else { "" }),
            CS::Key(_, _, x) => format!("DATAKEY{}", m(x)),
            CS::KeyVal(_, _, _, x) => format!("KEYVALUE{}", m(x)),
            CS::Val(_) => "VALUE".into(),
            CS::Text(_, n) => if *n { "TEXT-NOCASE".into() } else { "TEXT".into() },
            CS::Union(v) => {
                let mut k: Vec<String> = v.iter().map(|c| c.kind()).collect();
                k.sort();
                k.dedup();
                format!("UNION({})", k.join("|"))
            }
            CS::Limit(..) => "LIMIT".into(),
            CS::AnnVar(_, x) => format!("ANNOTATIONVAR{}", m(x)),
            CS::ResVar(_, x) => format!("RESOURCEVAR{}", m(x)),
            CS::SetVar(_) => "DATASETVAR".into(),
            CS::DataVar(_) => "DATAVAR".into(),
            CS::KeyVar(_) => "KEYVAR".into(),
            CS::TextVar(_) => "TEXTVAR".into(),
            CS::Rel(_, o) => format!("RELATION-{}", o),
        }
    }
}

#[derive(Debug, Clone)]
pub struct QS {
    pub rt: Type,
    pub name: Option<String>,
    pub cs: Vec<CS>,
    pub subs: Vec<QS>,
    pub optional: bool,
}

impl QS {
    pub fn new(rt: Type, cs: Vec<CS>) -> QS {
        QS { rt, name: None, cs, subs: Vec::new(), optional: false }
    }
    fn build<'a>(&'a self) -> Query<'a> {
        let mut q = Query::new(QueryType::Select, Some(self.rt), self.name.as_deref());
        if self.optional {
            q = q.with_qualifier(QueryQualifier::Optional);
        }
        for c in &self.cs {
            q = q.with_constraint(c.constraint());
        }
        for s in &self.subs {
            q = q.with_subquery(s.build());
        }
        q
    }
    pub fn describe(&self) -> Value {
        json!({"result": rtname(self.rt), "name": self.name, "optional": self.optional, "constraints": self.cs.iter().map(|c| format!("{:?}", c)).collect::<Vec<_>>(), "subqueries": self.subs.iter().map(|s| s.describe()).collect::<Vec<_>>(), "stamql": self.build().to_string().ok()})
    }
}

fn rtname(t: Type) -> &'static str {
    match t {
        Type::Annotation => "ANNOTATION",
        Type::AnnotationData => "DATA",
        Type::DataKey => "KEY",
        Type::TextSelection => "TEXT",
        Type::TextResource => "RESOURCE",
        Type::AnnotationDataSet => "DATASET",
        _ => "?",
    }
}

pub const RTS: [Type; 6] = [Type::Annotation, Type::AnnotationData, Type::DataKey, Type::TextSelection, Type::TextResource, Type::AnnotationDataSet];

// ---------------------------------------------------------------------------------------------
// evaluation

type Row = Vec<String>;

#[derive(Debug, Clone, PartialEq)]
pub enum Out {
    Rows(Vec<Row>),
    /// the evaluator says this constraint is not implemented / not valid in this position
    Unsupported(String),
    /// the query was refused for another reason (unknown id, unbound variable)
    Refused(String),
    Panic(String),
}

impl Out {
    fn rows(&self) -> Option<&Vec<Row>> {
        match self {
            Out::Rows(r) => Some(r),
            _ => None,
        }
    }
    fn set(&self) -> Option<BTreeSet<Row>> {
        self.rows().map(|r| r.iter().cloned().collect())
    }
}

pub fn item_repr(item: &QueryResultItem) -> String {
    match item {
        QueryResultItem::None => "none".into(),
        QueryResultItem::TextSelection(t) => format!("text:{}:{}-{}", t.resource().handle().as_usize(), t.begin(), t.end()),
        QueryResultItem::Annotation(a) => format!("annotation:{}", a.handle().as_usize()),
        QueryResultItem::TextResource(r) => format!("resource:{}", r.handle().as_usize()),
        QueryResultItem::DataKey(k) => format!("key:{}:{}", k.set().handle().as_usize(), k.handle().as_usize()),
        QueryResultItem::AnnotationData(d) => format!("data:{}:{}", d.set().handle().as_usize(), d.handle().as_usize()),
        QueryResultItem::AnnotationDataSet(s) => format!("dataset:{}", s.handle().as_usize()),
        QueryResultItem::AnnotationSubStore(s) => format!("substore:{}", s.handle().as_usize()),
    }
}

fn classify_error(detail: &str) -> Out {
    let d: String = normalise_msg(&detail.chars().take(90).collect::<String>());
    if detail.contains("not implemented") || detail.contains("not valid for") || detail.contains("is not supported") || detail.contains("only be used") || detail.contains("can only") {
        Out::Unsupported(d)
    } else {
        Out::Refused(d)
    }
}

const MAXROWS: usize = 2000;

pub fn run<'a>(store: &'a AnnotationStore, q: Query<'a>) -> Out {
    let before = stam::verif::note_count("query_error");
    let r = guard(move || match store.query(q) {
        Err(e) => Err(format!("{:?}", e)),
        Ok(iter) => Ok(iter.take(MAXROWS).map(|row| row.iter().map(item_repr).collect::<Row>()).collect::<Vec<Row>>()),
    });
    if stam::verif::note_count("query_error") != before {
        return classify_error(&stam::verif::last_detail("query_error").unwrap_or_default());
    }
    match r {
        Err(p) => Out::Panic(p.class()),
        Ok(Err(e)) => classify_error(&e),
        Ok(Ok(rows)) => Out::Rows(rows),
    }
}

pub fn eval(store: &AnnotationStore, q: &QS) -> Out {
    run(store, q.build())
}

// ---------------------------------------------------------------------------------------------
// what exists in a store: material for constraints

pub struct Pool {
    ann_ids: Vec<String>,
    res_ids: Vec<String>,
    set_ids: Vec<String>,
    keys: Vec<(String, String)>,
    values: Vec<(String, String, DataValue)>,
    texts: Vec<String>,
}

pub fn pool(store: &AnnotationStore, rng: &mut Rng) -> Pool {
    let mut p = Pool { ann_ids: Vec::new(), res_ids: Vec::new(), set_ids: Vec::new(), keys: Vec::new(), values: Vec::new(), texts: Vec::new() };
    for a in store.annotations() {
        if let Some(id) = a.id() {
            p.ann_ids.push(id.to_string());
        }
    }
    for r in store.resources() {
        if let Some(id) = r.id() {
            p.res_ids.push(id.to_string());
        }
        let chars: Vec<char> = r.text().chars().collect();
        for _ in 0..3 {
            if chars.is_empty() {
                break;
            }
            let b = rng.below(chars.len());
            let e = (b + rng.range(1, 3) as usize).min(chars.len());
            p.texts.push(chars[b..e].iter().collect());
        }
    }
    for s in store.datasets() {
        let Some(sid) = s.id() else { continue };
        p.set_ids.push(sid.to_string());
        for k in s.keys() {
            if let Some(kid) = k.id() {
                p.keys.push((sid.to_string(), kid.to_string()));
            }
        }
        for d in s.data() {
            if let Some(kid) = d.key().id() {
                p.values.push((sid.to_string(), kid.to_string(), d.value().clone()));
            }
        }
    }
    // the text of known selections (so that a TEXT filter has something to keep), short ones
    for t in store.annotations().textselections().take(12) {
        let text = t.text();
        if !text.is_empty() && text.chars().count() <= 6 {
            p.texts.push(text.to_string());
        }
    }
    p.texts.push("zzz".into());
    p
}

fn pick_or<'x>(rng: &mut Rng, v: &'x [String], absent: &str) -> String {
    if v.is_empty() || rng.chance(1, 12) {
        absent.to_string()
    } else {
        v[rng.below(v.len())].clone()
    }
}

fn gen_ops(rng: &mut Rng, v: &DataValue) -> OpS {
    match v {
        DataValue::String(s) => {
            if rng.chance(1, 5) {
                OpS::NeS(s.clone())
            } else {
                OpS::EqS(s.clone())
            }
        }
        DataValue::Int(i) => match rng.below(4) {
            0 => OpS::Gt(i.saturating_sub(1)),
            1 => OpS::Le(*i),
            _ => OpS::EqI(*i),
        },
        DataValue::Float(f) => OpS::EqF(*f),
        DataValue::Null => OpS::Null,
        DataValue::Bool(true) => OpS::True,
        _ => OpS::Any,
    }
}

/// 1 in 8: the set exists but the key is one of another set (or of none) - nothing can match
fn foreign_key(rng: &mut Rng, p: &Pool, set: &str, key: String) -> String {
    if !rng.chance(1, 8) {
        return key;
    }
    let own: Vec<&String> = p.keys.iter().filter(|(s, _)| s == set).map(|(_, k)| k).collect();
    let others: Vec<&String> = p.keys.iter().filter(|(s, k)| s != set && !own.contains(&k)).map(|(_, k)| k).collect();
    if others.is_empty() || rng.chance(1, 3) {
        "nokey".to_string()
    } else {
        others[rng.below(others.len())].clone()
    }
}

/// a constraint that does not refer to variables
pub fn gen_cs(rng: &mut Rng, p: &Pool, allow_union: bool) -> CS {
    let meta = rng.chance(1, 5);
    match rng.below(if allow_union { 12 } else { 10 }) {
        0 => CS::Id(match rng.below(4) {
            0 => pick_or(rng, &p.res_ids, "nope"),
            1 => pick_or(rng, &p.set_ids, "nope"),
            _ => pick_or(rng, &p.ann_ids, "nope"),
        }),
        1 => CS::Res(pick_or(rng, &p.res_ids, "nope"), meta),
        2 => CS::Set(pick_or(rng, &p.set_ids, "nope"), meta),
        3 => CS::Ann(pick_or(rng, &p.ann_ids, "nope"), meta, rng.chance(1, 4)),
        4 | 5 => {
            if p.keys.is_empty() {
                CS::Key("nope".into(), "nokey".into(), meta)
            } else {
                let (s, k) = p.keys[rng.below(p.keys.len())].clone();
                let k = foreign_key(rng, p, &s, k);
                CS::Key(s, k, meta)
            }
        }
        6 | 7 => {
            if p.values.is_empty() {
                CS::KeyVal("nope".into(), "nokey".into(), OpS::Any, meta)
            } else {
                let (s, k, v) = p.values[rng.below(p.values.len())].clone();
                let o = gen_ops(rng, &v);
                let k = foreign_key(rng, p, &s, k);
                CS::KeyVal(s, k, o, meta)
            }
        }
        8 => {
            if p.values.is_empty() {
                CS::Val(OpS::Any)
            } else {
                let (_, _, v) = p.values[rng.below(p.values.len())].clone();
                CS::Val(gen_ops(rng, &v))
            }
        }
        9 => {
            let t = p.texts[rng.below(p.texts.len())].clone();
            let nocase = rng.chance(1, 4);
            // a case-insensitive reference is given in another case than the text has, non-ASCII letters included
            let t = if nocase {
                match rng.below(3) {
                    0 => t.to_uppercase(),
                    1 => t.to_lowercase(),
                    _ => t,
                }
            } else {
                t
            };
            CS::Text(t, nocase)
        }
        _ => {
            let n = rng.range(2, 3);
            CS::Union((0..n).map(|_| gen_cs(rng, p, false)).collect())
        }
    }
}

// ---------------------------------------------------------------------------------------------
// unit-level monitors of the helper collections

fn handles_unit(rep: &mut Report, rng: &mut Rng, store: &AnnotationStore) {
    let n = rng.range(0, 12) as usize;
    let mk = |rng: &mut Rng, sorted: bool, n: usize| -> Vec<AnnotationHandle> {
        let mut v: Vec<usize> = Vec::new();
        while v.len() < n {
            let x = rng.below(16);
            if !v.contains(&x) {
                v.push(x);
            }
        }
        if sorted {
            v.sort();
        }
        v.into_iter().map(AnnotationHandle::new).collect()
    };
    let (sa, sb) = (rng.chance(2, 3), rng.chance(2, 3));
    let a = mk(rng, sa, n);
    let m = rng.range(0, 12) as usize;
    let b = mk(rng, sb, m);
    let cls = format!("a:{}{}/b:{}{}", if sa { "sorted" } else { "unsorted" }, a.len().min(3), if sb { "sorted" } else { "unsorted" }, b.len().min(3));
    // union
    rep.eval();
    let (a2, b2) = (a.clone(), b.clone());
    let got = guard(move || {
        let mut ha: Handles<Annotation> = Handles::from_iter(a2.into_iter(), store);
        let hb: Handles<Annotation> = Handles::from_iter(b2.into_iter(), store);
        ha.union(&hb);
        ha.iter().map(|h| h.as_usize()).collect::<Vec<usize>>()
    });
    let expect: BTreeSet<usize> = a.iter().chain(b.iter()).map(|h| h.as_usize()).collect();
    rep.distinct(&format!("handles/union/{}", cls));
    match got {
        Err(p) => rep.violation(format!("C08/handles/union/panic/{}", p.class()), json!({"a": a.iter().map(|h| h.as_usize()).collect::<Vec<_>>(), "b": b.iter().map(|h| h.as_usize()).collect::<Vec<_>>(), "panic": p.msg})),
        Ok(g) => {
            let gs: BTreeSet<usize> = g.iter().cloned().collect();
            let kind = if gs.len() != g.len() {
                Some("duplicates")
            } else if gs != expect {
                Some(if gs.len() < expect.len() { "missing" } else { "differs" })
            } else {
                None
            };
            if let Some(k) = kind {
                rep.violation(format!("C08/handles/union/{}/{}", k, cls), json!({"a": a.iter().map(|h| h.as_usize()).collect::<Vec<_>>(), "b": b.iter().map(|h| h.as_usize()).collect::<Vec<_>>(), "got": g, "expected": expect}));
            }
        }
    }
    // intersection
    rep.eval();
    let (a2, b2) = (a.clone(), b.clone());
    let got = guard(move || {
        let mut ha: Handles<Annotation> = Handles::from_iter(a2.into_iter(), store);
        let hb: Handles<Annotation> = Handles::from_iter(b2.into_iter(), store);
        ha.intersection(&hb);
        ha.iter().map(|h| h.as_usize()).collect::<Vec<usize>>()
    });
    let bs: BTreeSet<usize> = b.iter().map(|h| h.as_usize()).collect();
    let expect: BTreeSet<usize> = a.iter().map(|h| h.as_usize()).filter(|x| bs.contains(x)).collect();
    rep.distinct(&format!("handles/intersection/{}", cls));
    match got {
        Err(p) => rep.violation(format!("C08/handles/intersection/panic/{}", p.class()), json!({"a": a.iter().map(|h| h.as_usize()).collect::<Vec<_>>(), "b": b.iter().map(|h| h.as_usize()).collect::<Vec<_>>(), "panic": p.msg})),
        Ok(g) => {
            let gs: BTreeSet<usize> = g.iter().cloned().collect();
            if gs != expect || gs.len() != g.len() {
                rep.violation(format!("C08/handles/intersection/{}/{}", if gs.len() < expect.len() { "missing" } else { "differs" }, cls), json!({"a": a.iter().map(|h| h.as_usize()).collect::<Vec<_>>(), "b": b.iter().map(|h| h.as_usize()).collect::<Vec<_>>(), "got": g, "expected": expect}));
            }
        }
    }
    // contains / add
    rep.eval();
    let probe = AnnotationHandle::new(rng.below(16));
    let a2 = a.clone();
    let got = guard(move || {
        let mut ha: Handles<Annotation> = Handles::from_iter(a2.into_iter(), store);
        let c = ha.contains(&probe);
        ha.add(probe);
        ha.add(probe);
        (c, ha.iter().filter(|h| *h == probe).count(), ha.len())
    });
    let had = a.contains(&probe);
    match got {
        Err(p) => rep.violation(format!("C08/handles/contains-add/panic/{}", p.class()), json!({"panic": p.msg})),
        Ok((c, count, len)) => {
            if c != had || count != 1 || len != a.len() + if had { 0 } else { 1 } {
                rep.violation(format!("C08/handles/contains-add/{}", if sa { "sorted" } else { "unsorted" }), json!({"a": a.iter().map(|h| h.as_usize()).collect::<Vec<_>>(), "probe": probe.as_usize(), "contains": c, "count_after_two_adds": count, "len": len}));
            }
        }
    }
}

/// None: the combination is not settled by the documentation (negative begin with positive end)
fn ref_limit(n: usize, begin: isize, end: isize) -> Option<(usize, usize)> {
    if begin < 0 && end > 0 {
        return None;
    }
    let n = n as isize;
    let b = if begin < 0 { (n + begin).max(0) } else { begin.min(n) };
    let e = if end == 0 {
        n
    } else if end < 0 {
        (n + end).max(0)
    } else {
        end.min(n)
    };
    Some((b as usize, (e.max(b)) as usize))
}

fn limit_unit(rep: &mut Report, rng: &mut Rng) {
    let n = rng.below(9);
    let begin = rng.range(-(n as i64) - 2, n as i64 + 2) as isize;
    let end = rng.range(-(n as i64) - 2, n as i64 + 2) as isize;
    let Some((b, e)) = ref_limit(n, begin, end) else {
        rep.count("limit/unsettled");
        return;
    };
    rep.eval();
    let got = guard(|| (0..n).limit(begin, end).take(n + 3).collect::<Vec<usize>>());
    let expect: Vec<usize> = (b..e).collect();
    rep.distinct(&format!("limit/{}{}", if begin < 0 { "neg" } else { "pos" }, if end < 0 { "neg" } else if end == 0 { "zero" } else { "pos" }));
    let cls = format!("begin:{}/end:{}", if begin < 0 { "negative" } else if begin == 0 { "zero" } else { "positive" }, if end < 0 { "negative" } else if end == 0 { "zero" } else { "positive" });
    match got {
        Err(p) => rep.violation(format!("C08/limititer/panic/{}/{}", cls, p.class()), json!({"n": n, "begin": begin, "end": end, "panic": p.msg})),
        Ok(g) => {
            if g != expect {
                rep.violation(format!("C08/limititer/{}", cls), json!({"n": n, "begin": begin, "end": end, "got": g, "expected": expect}));
            }
        }
    }
}

// ---------------------------------------------------------------------------------------------
// relations

fn support_note(rep: &mut Report, rt: Type, c: &CS, pos: &str, out: &Out) {
    if matches!(c, CS::Union(_)) {
        return;
    }
    let state = match out {
        Out::Rows(_) | Out::Refused(_) => "ok",
        Out::Unsupported(_) => "unsupported",
        Out::Panic(_) => "panic",
    };
    rep.count(&format!("support/{}/{}/{}/{}", rtname(rt), c.kind(), pos, state));
}

fn ctx(store_desc: &Value, q: &QS, extra: Value) -> Value {
    json!({"store": store_desc, "query": q.describe(), "detail": extra})
}

fn check_panic(rep: &mut Report, out: &Out, q: &QS, sd: &Value) -> bool {
    if let Out::Panic(cls) = out {
        rep.violation(format!("C08/evaluate/panic/{}/{}", rtname(q.rt), cls), ctx(sd, q, json!({"panic": cls})));
        true
    } else {
        false
    }
}

fn relations(rep: &mut Report, rng: &mut Rng, store: &AnnotationStore, model: &Model, sd: &Value) {
    let p = pool(store, rng);
    let rt = *rng.pick(&RTS[..]);
    let n = rng.range(1, 3) as usize;
    let cs: Vec<CS> = (0..n).map(|_| gen_cs(rng, &p, true)).collect();

    // every single constraint as the only (primary) constraint
    let singles: Vec<Out> = cs
        .iter()
        .map(|c| {
            let q = QS::new(rt, vec![c.clone()]);
            let o = eval(store, &q);
            support_note(rep, rt, c, "primary", &o);
            check_panic(rep, &o, &q, sd);
            o
        })
        .collect();
    rep.evals(n as u64);

    // 0. each constraint alone: as primary (index-driven source) and as secondary (filter over everything)
    let mut disagreeing: Vec<String> = Vec::new();
    for (c, o) in cs.iter().zip(&singles) {
        if matches!(c, CS::Limit(..)) {
            continue;
        }
        let q = QS::new(rt, vec![CS::Limit(0, 0), c.clone()]);
        let sec = eval(store, &q);
        support_note(rep, rt, c, "secondary", &sec);
        rep.eval();
        if check_panic(rep, &sec, &q, sd) {
            continue;
        }
        // a TEXT constraint in a later position is a filter on the text of the rows: compare with a scan of the unfiltered rows
        if let (Type::TextSelection, CS::Text(reftext, nocase), Some(got)) = (rt, c, sec.set()) {
            let all = guard(|| {
                store.query(QS::new(rt, vec![CS::Limit(0, 0)]).build()).map(|it| {
                    it.take(MAXROWS)
                        .filter_map(|row| match row.iter().next() {
                            Some(QueryResultItem::TextSelection(t)) => Some((vec![format!("text:{}:{}-{}", t.resource().handle().as_usize(), t.begin(), t.end())], t.text().to_string())),
                            _ => None,
                        })
                        .collect::<Vec<(Row, String)>>()
                })
            });
            if let Ok(Ok(all)) = all {
                if all.len() < MAXROWS {
                    rep.eval();
                    rep.distinct(&format!("secondary-vs-scan/TEXT/{}", c.kind()));
                    let expect: BTreeSet<Row> = all.into_iter().filter(|(_, text)| if *nocase { text.to_lowercase() == reftext.to_lowercase() } else { text == reftext }).map(|(r, _)| r).collect();
                    if expect != got {
                        let kind = if got.is_subset(&expect) { "filter-misses" } else if expect.is_subset(&got) { "filter-has-more" } else { "differs" };
                        rep.violation(format!("C08/secondary-vs-scan/TEXT/{}/{}", c.kind(), kind), ctx(sd, &q, json!({"constraint": format!("{:?}", c), "rows_after_LIMIT_0_0_then_TEXT": got, "unfiltered_rows_whose_text_matches": expect})));
                    }
                }
            }
        }
        // RESOURCE and TEXT constraints in a later position on ANNOTATION results, RESOURCE on TEXT results: the filters' documented
        // meaning, item by item (annotation.resources() follows annotation selectors; the text of an annotation is the text of its selection, or of its selections joined with a space)
        {
            let scan: Option<Result<BTreeSet<Row>, Panic>> = match (rt, c) {
                // (from the shadow model: the resources an annotation reaches through its target, following annotation selectors)
                (Type::Annotation, CS::Res(id, meta)) => store.resource(id.as_str()).map(|res| {
                    let h = res.handle().as_usize();
                    Ok(model.anns.values().filter(|a| model.sel_resources(&a.target, *meta, 0).contains(&h)).map(|a| vec![format!("annotation:{}", a.handle)]).collect())
                }),
                (Type::Annotation, CS::Text(t, nocase)) => Some(guard(|| {
                    store
                        .annotations()
                        .filter(|a| {
                            // one selection: its text; several: their texts joined with a space (the documented delimiter of the query filter)
                            let x = a.text_simple().map(|x| x.to_string()).unwrap_or_else(|| a.text_join(" "));
                            if *nocase { x.to_lowercase() == t.to_lowercase() } else { x == *t }
                        })
                        .map(|a| vec![format!("annotation:{}", a.handle().as_usize())])
                        .collect()
                })),
                (Type::TextSelection, CS::Res(id, _)) => store.resource(id.as_str()).map(|res| {
                    let h = res.handle();
                    guard(|| {
                        store
                            .annotations()
                            .textselections()
                            .filter(|t| t.resource().handle() == h)
                            .map(|t| vec![format!("text:{}:{}-{}", t.resource().handle().as_usize(), t.begin(), t.end())])
                            .collect()
                    })
                }),
                _ => None,
            };
            if let (Some(Ok(expect)), Some(got)) = (scan, sec.set()) {
                if sec.rows().map(|r| r.len() < MAXROWS).unwrap_or(false) {
                    rep.eval();
                    rep.distinct(&format!("secondary-vs-scan/{}/{}", rtname(rt), c.kind()));
                    rep.count(&format!("secondary-vs-scan/{}/{}/{}", rtname(rt), c.kind(), if expect.is_empty() { "empty" } else { "rows" }));
                    if expect != got {
                        let kind = if got.is_subset(&expect) { "filter-misses" } else if expect.is_subset(&got) { "filter-has-more" } else { "differs" };
                        rep.violation(format!("C08/secondary-vs-scan/{}/{}/{}", rtname(rt), c.kind(), kind), ctx(sd, &q, json!({"constraint": format!("{:?}", c), "rows_after_LIMIT_0_0_then_constraint": got, "item_level_scan": expect})));
                    }
                }
            }
        }
        // a DATA constraint in a later position on RESOURCE results is the documented filter: resources with an annotation on
        // their text (or, AS METADATA, on the resource as a whole) that carries matching data - compare with an item-level scan
        if let (Type::TextResource, Some(got)) = (rt, sec.set()) {
            let spec: Option<(&String, &String, Option<&OpS>, bool)> = match c {
                CS::Key(s, k, m) => Some((s, k, None, *m)),
                CS::KeyVal(s, k, op, m) => Some((s, k, Some(op), *m)),
                _ => None,
            };
            if let Some((set, key, op, meta)) = spec {
                let scan = guard(|| {
                    store
                        .resources()
                        .filter(|r| {
                            let hit = |a: ResultItem<Annotation>| a.data().any(|d| d.set().id() == Some(set.as_str()) && d.key().id() == Some(key.as_str()) && op.map(|o| d.value().test(&o.op())).unwrap_or(true));
                            if meta {
                                r.annotations_as_metadata().any(hit)
                            } else {
                                r.annotations().any(hit)
                            }
                        })
                        .map(|r| vec![format!("resource:{}", r.handle().as_usize())])
                        .collect::<BTreeSet<Row>>()
                });
                if let Ok(expect) = scan {
                    rep.eval();
                    rep.distinct(&format!("secondary-vs-scan/RESOURCE/{}", c.kind()));
                    rep.count(&format!("secondary-vs-scan/RESOURCE/{}/{}", c.kind(), if expect.is_empty() { "empty" } else { "rows" }));
                    if expect != got {
                        let kind = if got.is_subset(&expect) { "filter-misses" } else if expect.is_subset(&got) { "filter-has-more" } else { "differs" };
                        rep.violation(format!("C08/secondary-vs-scan/RESOURCE/{}/{}", c.kind(), kind), ctx(sd, &q, json!({"constraint": format!("{:?}", c), "rows_after_LIMIT_0_0_then_DATA": got, "resources_with_a_matching_annotation": expect})));
                    }
                }
            }
        }
        if let (Some(a), Some(b)) = (o.set(), sec.set()) {
            rep.distinct(&format!("primary-vs-secondary/{}/{}", rtname(rt), c.kind()));
            if a != b {
                disagreeing.push(c.kind());
                let kind = if b.is_subset(&a) { "secondary-misses" } else if a.is_subset(&b) { "secondary-has-more" } else { "differs" };
                // a union inherits the disagreement of a member: name the member
                let mut cell = c.kind();
                if let CS::Union(members) = c {
                    for m in members {
                        let pa = eval(store, &QS::new(rt, vec![m.clone()]));
                        let pb = eval(store, &QS::new(rt, vec![CS::Limit(0, 0), m.clone()]));
                        if let (Some(x), Some(y)) = (pa.set(), pb.set()) {
                            if x != y {
                                cell = m.kind();
                                break;
                            }
                        }
                    }
                }
                rep.violation(
                    format!("C08/primary-vs-secondary/{}/{}", rtname(rt), cell),
                    ctx(sd, &q, json!({"constraint": format!("{:?}", c), "direction": kind, "as_only_constraint": a, "as_second_constraint_after_LIMIT_0_0": b})),
                );
            }
        }
    }

    // 7. scan of the shadow model for the unambiguous constraints (ANNOTATION results)
    if rt == Type::Annotation {
        for (c, o) in cs.iter().zip(&singles) {
            if let (Some(expect), Some(got)) = (model_scan(model, c), o.set()) {
                rep.eval();
                rep.distinct(&format!("scan/{}", c.kind()));
                let expect: BTreeSet<Row> = expect.into_iter().map(|h| vec![format!("annotation:{}", h)]).collect();
                if got != expect {
                    let q = QS::new(rt, vec![c.clone()]);
                    let kind = if got.is_subset(&expect) { "missing" } else if expect.is_subset(&got) { "extra" } else { "differs" };
                    rep.violation(format!("C08/scan/ANNOTATION/{}/{}", c.kind(), kind), ctx(sd, &q, json!({"got": got, "expected_from_model": expect})));
                }
            }
        }
    }

    // 7a. a TEXT constraint as the only constraint is a search: the occurrences of the text (left to right, not overlapping; case
    // folded char by char for AS NOCASE) in every resource - for TEXT results those ranges, for ANNOTATION results the annotations
    // that have a selection on exactly such a range
    for (c, o) in cs.iter().zip(&singles) {
        let (CS::Text(needle, nocase), Some(got)) = (c, o.set()) else { continue };
        if !(rt == Type::TextSelection || rt == Type::Annotation) || o.rows().map(|r| r.len() >= MAXROWS).unwrap_or(true) {
            continue;
        }
        let fold = |s: &str| -> Option<Vec<char>> {
            let mut v = Vec::new();
            for ch in s.chars() {
                if *nocase {
                    let mut l = ch.to_lowercase();
                    let first = l.next()?;
                    if l.next().is_some() {
                        return None; // a character whose lower case is longer: offsets do not map one to one, not judged
                    }
                    v.push(first);
                } else {
                    v.push(ch);
                }
            }
            Some(v)
        };
        let Some(nd) = fold(needle) else { continue };
        if nd.is_empty() {
            continue;
        }
        let mut occ: BTreeSet<(usize, usize, usize)> = BTreeSet::new();
        let mut ok = true;
        for r in store.resources() {
            let Some(text) = fold(r.text()) else {
                ok = false;
                break;
            };
            let mut i = 0;
            while i + nd.len() <= text.len() {
                if text[i..i + nd.len()] == nd[..] {
                    occ.insert((r.handle().as_usize(), i, i + nd.len()));
                    i += nd.len();
                } else {
                    i += 1;
                }
            }
        }
        if !ok {
            continue;
        }
        let expect: Result<BTreeSet<Row>, Panic> = guard(|| {
            if rt == Type::TextSelection {
                occ.iter().map(|(r, b, e)| vec![format!("text:{}:{}-{}", r, b, e)]).collect()
            } else {
                store.annotations().filter(|a| a.textselections().any(|t| occ.contains(&(t.resource().handle().as_usize(), t.begin(), t.end())))).map(|a| vec![format!("annotation:{}", a.handle().as_usize())]).collect()
            }
        });
        if let Ok(expect) = expect {
            rep.eval();
            rep.distinct(&format!("primary-vs-search/{}/{}", rtname(rt), c.kind()));
            rep.count(&format!("primary-vs-search/{}/{}/{}", rtname(rt), c.kind(), if expect.is_empty() { "empty" } else { "rows" }));
            if expect != got {
                let kind = if got.is_subset(&expect) { "query-misses" } else if expect.is_subset(&got) { "query-has-more" } else { "differs" };
                rep.violation(format!("C08/primary-vs-search/{}/{}/{}", rtname(rt), c.kind(), kind), ctx(sd, &QS::new(rt, vec![c.clone()]), json!({"query_rows": got, "from_the_occurrences_of_the_text": expect})));
            }
        }
    }

    // 7b. the same question through the iterator API
    for (c, o) in cs.iter().zip(&singles) {
        if let Some(got) = o.set() {
            if o.rows().map(|r| r.len() >= MAXROWS).unwrap_or(true) {
                continue;
            }
            let api = guard(|| iterator_api(store, rt, c));
            match api {
                Err(pn) => rep.violation(format!("C08/iterator-api/{}/{}/panic/{}", rtname(rt), c.kind(), pn.class()), ctx(sd, &QS::new(rt, vec![c.clone()]), json!({"panic": pn.msg.clone(), "at": pn.loc.clone()}))),
                Ok(None) => {}
                Ok(Some(expect)) => {
                    rep.eval();
                    rep.distinct(&format!("iterator-api/{}/{}", rtname(rt), c.kind()));
                    rep.count(&format!("iterator-api/{}/{}/{}", rtname(rt), c.kind(), if expect.is_empty() { "empty" } else { "rows" }));
                    if got != expect {
                        let kind = if got.is_subset(&expect) { "query-misses" } else if expect.is_subset(&got) { "query-has-more" } else { "differs" };
                        rep.violation(
                            format!("C08/iterator-api/{}/{}/{}", rtname(rt), c.kind(), kind),
                            ctx(sd, &QS::new(rt, vec![c.clone()]), json!({"query_rows": got, "iterator_api_rows": expect})),
                        );
                    }
                }
            }
        }
    }

    // duplicate-free results for single constraints
    for (c, o) in cs.iter().zip(&singles) {
        if let (Some(rows), Some(set)) = (o.rows(), o.set()) {
            rep.eval();
            if rows.len() != set.len() && rows.len() < MAXROWS {
                // the statement promises duplicate-free answers for disjunctions only. On the pinned tree the only single-constraint
                // answers with repeated rows are TEXT results reached through data (one row per annotation that carries the data);
                // a row that comes twice anywhere else is an item returned that was already returned
                rep.count(&format!("repeated-rows/{}/{}", rtname(rt), c.kind()));
                let through_data = rt == Type::TextSelection && matches!(c, CS::Key(..) | CS::KeyVal(..) | CS::Val(..));
                if !through_data && !matches!(c, CS::Union(_)) {
                    let mut twice: Vec<&Row> = rows.iter().filter(|r| rows.iter().filter(|x| x == r).count() > 1).collect();
                    twice.dedup();
                    rep.violation(format!("C08/repeated-rows/{}/{}", rtname(rt), c.kind()), ctx(sd, &QS::new(rt, vec![c.clone()]), json!({"rows": rows.len(), "distinct": set.len(), "returned_more_than_once": twice.into_iter().take(5).collect::<Vec<_>>()})));
                }
            }
        }
    }

    // 1./2. order independence and conjunction
    if n >= 2 {
        let mut perms: Vec<Vec<usize>> = Vec::new();
        let idx: Vec<usize> = (0..n).collect();
        permute(&idx, &mut Vec::new(), &mut perms);
        let mut outs: Vec<(Vec<usize>, Out)> = Vec::new();
        for perm in &perms {
            let q = QS::new(rt, perm.iter().map(|i| cs[*i].clone()).collect());
            let o = eval(store, &q);
            rep.eval();
            check_panic(rep, &o, &q, sd);
            outs.push((perm.clone(), o));
        }
        let answered: Vec<&(Vec<usize>, Out)> = outs.iter().filter(|(_, o)| o.set().is_some()).collect();
        if answered.len() >= 2 {
            let first = answered[0];
            for other in &answered[1..] {
                rep.eval();
                rep.distinct(&format!("order/{}/{}", rtname(rt), kinds_of(&cs)));
                if first.1.set() != other.1.set() {
                    if !disagreeing.is_empty() {
                        rep.count("order/explained-by-primary-vs-secondary");
                        break;
                    }
                    let q = QS::new(rt, first.0.iter().map(|i| cs[*i].clone()).collect());
                    rep.violation(
                        format!("C08/order/{}/primary:{}-vs-{}", rtname(rt), cs[first.0[0]].kind(), cs[other.0[0]].kind()),
                        ctx(sd, &q, json!({"order_a": first.0, "rows_a": first.1.set(), "order_b": other.0, "rows_b": other.1.set()})),
                    );
                    break;
                }
            }
        }
        // conjunction: every answered permutation equals the intersection of the single answers
        if singles.iter().all(|o| o.set().is_some()) {
            let mut inter: BTreeSet<Row> = singles[0].set().unwrap();
            for s in &singles[1..] {
                let ss = s.set().unwrap();
                inter = inter.intersection(&ss).cloned().collect();
            }
            for (perm, o) in &answered.iter().map(|x| (&x.0, &x.1)).collect::<Vec<_>>() {
                rep.eval();
                rep.distinct(&format!("conj/{}/{}", rtname(rt), kinds_of(&cs)));
                let got = o.set().unwrap();
                if got != inter {
                    if !disagreeing.is_empty() {
                        rep.count("conjunction/explained-by-primary-vs-secondary");
                        break;
                    }
                    let q = QS::new(rt, perm.iter().map(|i| cs[*i].clone()).collect());
                    let secondary: Vec<String> = perm[1..].iter().map(|i| cs[*i].kind()).collect();
                    let kind = if got.is_subset(&inter) { "missing" } else if inter.is_subset(&got) { "extra" } else { "differs" };
                    rep.violation(
                        format!("C08/conjunction/{}/primary:{}/secondary:{}/{}", rtname(rt), cs[perm[0]].kind(), secondary.join("+"), kind),
                        ctx(sd, &q, json!({"got": got, "intersection_of_single_constraint_answers": inter})),
                    );
                    break;
                }
            }
        }
    }

    // 3. disjunction
    if n >= 2 && cs.iter().all(|c| !matches!(c, CS::Union(_))) {
        let u = CS::Union(cs.clone());
        let q = QS::new(rt, vec![u.clone()]);
        let o = eval(store, &q);
        support_note(rep, rt, &u, "primary", &o);
        rep.eval();
        if !check_panic(rep, &o, &q, sd) {
            if let (Some(rows), true) = (o.rows(), singles.iter().all(|o| o.set().is_some() || matches!(o, Out::Refused(_)))) {
                let mut expect: BTreeSet<Row> = BTreeSet::new();
                for s in &singles {
                    if let Some(ss) = s.set() {
                        expect.extend(ss);
                    }
                }
                let got: BTreeSet<Row> = rows.iter().cloned().collect();
                rep.distinct(&format!("union/{}/{}", rtname(rt), kinds_of(&cs)));
                if got.len() != rows.len() {
                    rep.violation(format!("C08/union/{}/duplicates/{}", rtname(rt), kinds_of(&cs)), ctx(sd, &q, json!({"rows": rows})));
                } else if got != expect {
                    let kind = if got.is_subset(&expect) { "missing" } else if expect.is_subset(&got) { "extra" } else { "differs" };
                    rep.violation(format!("C08/union/{}/{}/{}", rtname(rt), kind, kinds_of(&cs)), ctx(sd, &q, json!({"got": got, "union_of_branch_answers": expect})));
                }
            }
        }
    }

    // 4. LIMIT as last constraint and as only constraint
    {
        let base = QS::new(rt, if rng.chance(1, 3) { Vec::new() } else { vec![cs[0].clone()] });
        let unlimited = eval(store, &base);
        if let Some(rows) = unlimited.rows() {
            if rows.len() < MAXROWS {
                let len = rows.len() as i64;
                let b = rng.range(-len - 2, len + 2) as isize;
                let e = rng.range(-len - 2, len + 2) as isize;
                if let Some((rb, re)) = ref_limit(rows.len(), b, e) {
                    let mut q = base.clone();
                    q.cs.push(CS::Limit(b, e));
                    let o = eval(store, &q);
                    rep.eval();
                    if !check_panic(rep, &o, &q, sd) {
                        if let Some(got) = o.rows() {
                            rep.distinct(&format!("limit-query/{}/{}{}", rtname(rt), if b < 0 { "neg" } else { "pos" }, if e < 0 { "neg" } else if e == 0 { "zero" } else { "pos" }));
                            let expect: Vec<Row> = rows[rb..re].to_vec();
                            if *got != expect {
                                rep.violation(
                                    format!("C08/limit/{}/{}/begin:{}/end:{}", rtname(rt), if base.cs.is_empty() { "primary" } else { "secondary" }, if b < 0 { "negative" } else if b == 0 { "zero" } else { "positive" }, if e < 0 { "negative" } else if e == 0 { "zero" } else { "positive" }),
                                    ctx(sd, &q, json!({"unlimited": rows, "begin": b, "end": e, "got": got, "expected_slice": expect})),
                                );
                            }
                        }
                    }
                } else {
                    rep.count("limit/unsettled");
                }
            }
        }
    }

    // 6. the same query as STAMQL text
    {
        let q = QS::new(rt, cs.clone());
        if let Ok(text) = q.build().to_string() {
            let hostile = text.matches('"').count() % 2 == 1 || text.contains('\\') || format!("{:?}", cs).contains('|');
            if !hostile {
                let built = eval(store, &q);
                let parsed = match Query::try_from(text.as_str()) {
                    Ok(pq) => Some(run(store, pq)),
                    Err(_) => None,
                };
                rep.eval();
                match parsed {
                    None => rep.count("text/does-not-parse (C09)"),
                    Some(po) => {
                        if po != built && !(matches!(po, Out::Panic(_)) || matches!(built, Out::Panic(_))) {
                            rep.violation(format!("C08/text-vs-built/{}/{}", rtname(rt), kinds_of(&cs)), ctx(sd, &q, json!({"built": format!("{:?}", built).chars().take(500).collect::<String>(), "parsed": format!("{:?}", po).chars().take(500).collect::<String>()})));
                        }
                    }
                }
            }
        }
    }
}

/// the result-type x constraint cells whose primary and secondary evaluation have different universes (recorded findings)
const KNOWN_CELLS: [(&str, &str); 11] = [
    ("ANNOTATION", "RESOURCE"), ("ANNOTATION", "RESOURCE-META"), ("ANNOTATION", "TEXT"), ("ANNOTATION", "TEXT-NOCASE"),
    ("TEXT", "TEXT"), ("TEXT", "TEXT-NOCASE"), ("TEXT", "RESOURCE"), ("TEXT", "RESOURCE-META"),
    ("RESOURCE", "DATAKEY"), ("RESOURCE", "DATAKEY-META"), ("RESOURCE", "KEYVALUE-META"),
];

/// a variable stands for the item it is bound to
fn base_kind(kind: &str) -> String {
    kind.replace("RESOURCEVAR", "RESOURCE").replace("ANNOTATIONVAR", "ANNOTATION").replace("DATASETVAR", "DATASET").replace("KEYVAR", "DATAKEY")
}

fn kinds_of(cs: &[CS]) -> String {
    let mut k: Vec<String> = cs.iter().map(|c| c.kind()).collect();
    k.sort();
    k.join("+")
}

fn permute(rest: &[usize], cur: &mut Vec<usize>, out: &mut Vec<Vec<usize>>) {
    if rest.is_empty() {
        out.push(cur.clone());
        return;
    }
    for i in 0..rest.len() {
        let mut r = rest.to_vec();
        let x = r.remove(i);
        cur.push(x);
        permute(&r, cur, out);
        cur.pop();
    }
}

/// the same question asked through the high-level iterator API (items and their accessors), for the
/// combinations whose documented meaning is unambiguous. Data-related constraints are answered by a scan
/// with item-level accessors rather than by the index-driven call the evaluator itself uses.
fn iterator_api(store: &AnnotationStore, rt: Type, c: &CS) -> Option<BTreeSet<Row>> {
    let row_a = |a: &ResultItem<Annotation>| vec![format!("annotation:{}", a.handle().as_usize())];
    let row_d = |d: &ResultItem<AnnotationData>| vec![format!("data:{}:{}", d.set().handle().as_usize(), d.handle().as_usize())];
    let row_k = |k: &ResultItem<DataKey>| vec![format!("key:{}:{}", k.set().handle().as_usize(), k.handle().as_usize())];
    let row_t = |t: &ResultTextSelection| vec![format!("text:{}:{}-{}", t.resource().handle().as_usize(), t.begin(), t.end())];
    let row_r = |r: &ResultItem<TextResource>| vec![format!("resource:{}", r.handle().as_usize())];
    let row_s = |s: &ResultItem<AnnotationDataSet>| vec![format!("dataset:{}", s.handle().as_usize())];
    let data_match = |d: &ResultItem<AnnotationData>, set: &str, key: &str, op: Option<&OpS>| -> bool {
        d.set().id() == Some(set) && d.key().id() == Some(key) && op.map(|o| d.value().test(&o.op())).unwrap_or(true)
    };
    match (rt, c) {
        (Type::Annotation, CS::Id(id)) => Some(store.annotation(id.as_str()).iter().map(row_a).collect()),
        (Type::Annotation, CS::Res(id, false)) => Some(store.resource(id.as_str())?.annotations().map(|a| row_a(&a)).collect()),
        (Type::Annotation, CS::Res(id, true)) => Some(store.resource(id.as_str())?.annotations_as_metadata().map(|a| row_a(&a)).collect()),
        (Type::Annotation, CS::Set(id, false)) => {
            store.dataset(id.as_str())?;
            Some(store.annotations().filter(|a| a.data().any(|d| d.set().id() == Some(id.as_str()))).map(|a| row_a(&a)).collect())
        }
        (Type::Annotation, CS::Set(id, true)) => Some(store.dataset(id.as_str())?.annotations().map(|a| row_a(&a)).collect()),
        (Type::Annotation, CS::Ann(id, false, rec)) => Some(
            store.annotation(id.as_str())?.annotations_in_targets(if *rec { AnnotationDepth::Max } else { AnnotationDepth::One }).map(|a| row_a(&a)).collect(),
        ),
        (Type::Annotation, CS::Ann(id, true, false)) => Some(store.annotation(id.as_str())?.annotations().map(|a| row_a(&a)).collect()),
        (Type::Annotation, CS::Key(s, k, false)) => {
            store.key(s.as_str(), k.as_str())?;
            Some(store.annotations().filter(|a| a.data().any(|d| data_match(&d, s, k, None))).map(|a| row_a(&a)).collect())
        }
        (Type::Annotation, CS::KeyVal(s, k, op, false)) => {
            store.key(s.as_str(), k.as_str())?;
            Some(store.annotations().filter(|a| a.data().any(|d| data_match(&d, s, k, Some(op)))).map(|a| row_a(&a)).collect())
        }
        (Type::Annotation, CS::Val(op)) => Some(store.annotations().filter(|a| a.data().any(|d| d.value().test(&op.op()))).map(|a| row_a(&a)).collect()),
        (Type::AnnotationData, CS::Set(id, false)) => Some(store.dataset(id.as_str())?.data().map(|d| row_d(&d)).collect()),
        (Type::AnnotationData, CS::Key(s, k, false)) => {
            store.key(s.as_str(), k.as_str())?;
            Some(store.data().filter(|d| data_match(d, s, k, None)).map(|d| row_d(&d)).collect())
        }
        (Type::AnnotationData, CS::KeyVal(s, k, op, false)) => {
            store.key(s.as_str(), k.as_str())?;
            Some(store.data().filter(|d| data_match(d, s, k, Some(op))).map(|d| row_d(&d)).collect())
        }
        (Type::AnnotationData, CS::Val(op)) => Some(store.data().filter(|d| d.value().test(&op.op())).map(|d| row_d(&d)).collect()),
        (Type::AnnotationData, CS::Ann(id, false, _)) => Some(store.annotation(id.as_str())?.data().map(|d| row_d(&d)).collect()),
        (Type::DataKey, CS::Set(id, false)) => Some(store.dataset(id.as_str())?.keys().map(|k| row_k(&k)).collect()),
        (Type::DataKey, CS::Ann(id, false, _)) => Some(store.annotation(id.as_str())?.keys().map(|k| row_k(&k)).collect()),
        (Type::TextSelection, CS::Res(id, _)) => Some(store.resource(id.as_str())?.textselections().map(|t| row_t(&t)).collect()),
        (Type::TextSelection, CS::Ann(id, _, _)) => Some(store.annotation(id.as_str())?.textselections().map(|t| row_t(&t)).collect()),
        (Type::TextSelection, CS::Key(s, k, _)) => {
            store.key(s.as_str(), k.as_str())?;
            Some(store.annotations().filter(|a| a.data().any(|d| data_match(&d, s, k, None))).flat_map(|a| a.textselections().map(|t| row_t(&t)).collect::<Vec<_>>()).collect())
        }
        (Type::TextSelection, CS::KeyVal(s, k, op, _)) => {
            store.key(s.as_str(), k.as_str())?;
            Some(store.annotations().filter(|a| a.data().any(|d| data_match(&d, s, k, Some(op)))).flat_map(|a| a.textselections().map(|t| row_t(&t)).collect::<Vec<_>>()).collect())
        }
        (Type::TextResource, CS::Id(id)) | (Type::TextResource, CS::Res(id, _)) => Some(store.resource(id.as_str()).iter().map(row_r).collect()),
        (Type::AnnotationDataSet, CS::Id(id)) | (Type::AnnotationDataSet, CS::Set(id, _)) => Some(store.dataset(id.as_str()).iter().map(row_s).collect()),
        _ => None,
    }
}

/// annotation handles that satisfy an unambiguous constraint according to the shadow model
fn model_scan(m: &Model, c: &CS) -> Option<BTreeSet<usize>> {
    let set_by_id = |id: &str| m.sets.values().find(|s| s.id == id);
    match c {
        CS::Id(id) => Some(m.anns.values().filter(|a| a.id.as_deref() == Some(id.as_str())).map(|a| a.handle).collect()),
        CS::Key(s, k, false) => {
            let Some(set) = set_by_id(s) else { return Some(BTreeSet::new()) };
            let Some(key) = set.keys.values().find(|x| &x.id == k) else { return Some(BTreeSet::new()) };
            Some(m.anns.values().filter(|a| a.data.iter().any(|(sh, dh)| *sh == set.handle && set.data.get(dh).map(|d| d.key == key.handle).unwrap_or(false))).map(|a| a.handle).collect())
        }
        CS::KeyVal(s, k, op, false) => {
            let test = |v: &DataValue| -> Option<bool> {
                Some(match (op, v) {
                    (OpS::Any, _) => true,
                    (OpS::EqS(x), DataValue::String(y)) => x == y,
                    (OpS::EqS(_), _) => return None,
                    (OpS::EqI(x), DataValue::Int(y)) => x == y,
                    (OpS::EqI(_), DataValue::Float(_)) => return None,
                    (OpS::EqI(_), _) => false,
                    (OpS::Null, DataValue::Null) => true,
                    (OpS::Null, _) => false,
                    (OpS::True, DataValue::Bool(b)) => *b,
                    (OpS::True, _) => false,
                    (OpS::Gt(x), DataValue::Int(y)) => y > x,
                    (OpS::Le(x), DataValue::Int(y)) => y <= x,
                    _ => return None,
                })
            };
            let Some(set) = set_by_id(s) else { return Some(BTreeSet::new()) };
            let Some(key) = set.keys.values().find(|x| &x.id == k) else { return Some(BTreeSet::new()) };
            let mut out = BTreeSet::new();
            for a in m.anns.values() {
                for (sh, dh) in &a.data {
                    if *sh == set.handle {
                        if let Some(d) = set.data.get(dh) {
                            if d.key == key.handle {
                                match test(&d.value) {
                                    Some(true) => {
                                        out.insert(a.handle);
                                    }
                                    Some(false) => {}
                                    None => return None,
                                }
                            }
                        }
                    }
                }
            }
            Some(out)
        }
        _ => None,
    }
}

// 5. sub-queries as nested iteration
fn subqueries(rep: &mut Report, rng: &mut Rng, store: &AnnotationStore, sd: &Value) {
    let p = pool(store, rng);
    // outer: ANNOTATION, TEXT, RESOURCE, DATASET, DATA or KEY named ?x; inner refers to ?x
    let (outer_rt, inner_rt, link): (Type, Type, CS) = match rng.below(9) {
        0 => (Type::Annotation, Type::Annotation, CS::AnnVar("x".into(), false)),
        1 => (Type::Annotation, Type::Annotation, CS::AnnVar("x".into(), true)),
        2 => (Type::Annotation, Type::TextSelection, CS::AnnVar("x".into(), false)),
        3 => (Type::TextResource, Type::Annotation, CS::ResVar("x".into(), rng.chance(1, 2))),
        4 => (Type::AnnotationDataSet, Type::AnnotationData, CS::SetVar("x".into())),
        5 => (Type::AnnotationData, Type::Annotation, CS::DataVar("x".into())),
        6 => (Type::DataKey, Type::AnnotationData, CS::KeyVar("x".into())),
        7 => (Type::TextSelection, Type::TextSelection, CS::Rel("x".into(), *rng.pick(&["EMBEDS", "EMBEDDED", "OVERLAPS", "BEFORE", "PRECEDES"]))),
        _ => (Type::Annotation, Type::Annotation, CS::Rel("x".into(), *rng.pick(&["EMBEDS", "EMBEDDED", "OVERLAPS", "AFTER"]))),
    };
    let mut outer = QS::new(outer_rt, if rng.chance(1, 2) { vec![gen_cs(rng, &p, false)] } else { Vec::new() });
    outer.name = Some("x".into());
    let mut inner = QS::new(inner_rt, vec![link.clone()]);
    if rng.chance(1, 2) {
        // the constraint that refers to the outer variable comes first (index-driven) or second (filter)
        let other = gen_cs(rng, &p, false);
        if rng.chance(1, 2) {
            inner.cs.push(other);
        } else {
            inner.cs.insert(0, other);
        }
    }
    inner.name = Some("y".into());
    inner.optional = rng.chance(1, 3);
    let mut nested = outer.clone();
    nested.subs.push(inner.clone());

    let outer_out = eval(store, &outer);
    let nested_out = eval(store, &nested);
    rep.evals(2);
    if check_panic(rep, &nested_out, &nested, sd) || check_panic(rep, &outer_out, &outer, sd) {
        return;
    }
    let (Some(outer_rows), Some(nested_rows)) = (outer_out.rows(), nested_out.rows()) else {
        rep.count(&format!("subquery/not-answered/{}", link.kind()));
        return;
    };
    if outer_rows.len() >= 200 {
        return;
    }
    // reference: for every outer row, the inner query with ?x bound through the with_*var methods
    let mut expect: Vec<Row> = Vec::new();
    let outer_items: Vec<QueryResultItem> = match guard(|| store.query(outer.build()).map(|it| it.take(200).filter_map(|mut r| r.pop_last()).collect::<Vec<_>>())) {
        Ok(Ok(v)) => v,
        _ => return,
    };
    for (orow, item) in outer_rows.iter().zip(outer_items.iter()) {
        let mut standalone = inner.clone();
        standalone.optional = false;
        let q = standalone.build();
        let q = match item {
            QueryResultItem::Annotation(a) => q.with_annotationvar("x", a),
            QueryResultItem::TextSelection(t) => q.with_textvar("x", t),
            QueryResultItem::TextResource(r) => q.with_resourcevar("x", r),
            QueryResultItem::AnnotationDataSet(s) => q.with_datasetvar("x", s),
            QueryResultItem::AnnotationData(d) => q.with_datavar("x", d),
            QueryResultItem::DataKey(k) => q.with_keyvar("x", k),
            _ => return,
        };
        let o = run(store, q);
        rep.eval();
        // the bound inner query must not depend on the order of its constraints either
        if standalone.cs.len() == 2 {
            let mut swapped = standalone.clone();
            swapped.cs.swap(0, 1);
            let q2 = swapped.build();
            let q2 = match item {
                QueryResultItem::Annotation(a) => q2.with_annotationvar("x", a),
                QueryResultItem::TextSelection(t) => q2.with_textvar("x", t),
                QueryResultItem::TextResource(r) => q2.with_resourcevar("x", r),
                QueryResultItem::AnnotationDataSet(s) => q2.with_datasetvar("x", s),
                QueryResultItem::AnnotationData(d) => q2.with_datavar("x", d),
                QueryResultItem::DataKey(k) => q2.with_keyvar("x", k),
                _ => return,
            };
            let o2 = run(store, q2);
            rep.eval();
            if let (Some(a), Some(b)) = (o.set(), o2.set()) {
                rep.distinct(&format!("bound-order/{}/{}", rtname(inner_rt), kinds_of(&standalone.cs)));
                if a != b {
                    // a constraint that disagrees between primary and secondary position on its own is judged under that
                    // cell (a variable stands for the item it is bound to: RESOURCE ?x is the RESOURCE cell)
                    let bind = |q: Query<'_>| -> Option<Out> {
                        // (re-binding needs the item; done by the caller-side match below)
                        let _ = q;
                        None
                    };
                    let _ = bind;
                    // a constraint of a recorded cell explains the difference (its universe depends on its position)
                    let mut cell: Option<String> = standalone.cs.iter().map(|c| base_kind(&c.kind())).find(|k| KNOWN_CELLS.contains(&(rtname(inner_rt), k.as_str())));
                    for c in standalone.cs.iter() {
                        if cell.is_some() {
                            break;
                        }
                        let differs = if *c == link {
                            let one = QS::new(inner_rt, vec![c.clone()]);
                            let two = QS::new(inner_rt, vec![CS::Limit(0, 0), c.clone()]);
                            let (qa, qb) = (one.build(), two.build());
                            let (qa, qb) = match item {
                                QueryResultItem::Annotation(a) => (qa.with_annotationvar("x", a), qb.with_annotationvar("x", a)),
                                QueryResultItem::TextSelection(t) => (qa.with_textvar("x", t), qb.with_textvar("x", t)),
                                QueryResultItem::TextResource(r) => (qa.with_resourcevar("x", r), qb.with_resourcevar("x", r)),
                                QueryResultItem::AnnotationDataSet(s) => (qa.with_datasetvar("x", s), qb.with_datasetvar("x", s)),
                                QueryResultItem::AnnotationData(d) => (qa.with_datavar("x", d), qb.with_datavar("x", d)),
                                QueryResultItem::DataKey(k) => (qa.with_keyvar("x", k), qb.with_keyvar("x", k)),
                                _ => return,
                            };
                            matches!((run(store, qa).set(), run(store, qb).set()), (Some(x), Some(y)) if x != y)
                        } else {
                            let pa = eval(store, &QS::new(inner_rt, vec![c.clone()]));
                            let pb = eval(store, &QS::new(inner_rt, vec![CS::Limit(0, 0), c.clone()]));
                            matches!((pa.set(), pb.set()), (Some(x), Some(y)) if x != y)
                        };
                        if differs {
                            cell = Some(base_kind(&c.kind()));
                            break;
                        }
                    }
                    match cell {
                        Some(k) => {
                            rep.violation(
                                format!("C08/primary-vs-secondary/{}/{}", rtname(inner_rt), k),
                                ctx(sd, &standalone, json!({"bound_to": orow, "rows": a, "rows_with_constraints_swapped": b, "seen_through": "bound sub-query, constraints in both orders"})),
                            );
                        }
                        None => {
                            rep.violation(
                                format!("C08/order/bound-variable/{}/{}", rtname(inner_rt), link.kind()),
                                ctx(sd, &standalone, json!({"bound_to": orow, "rows": a, "rows_with_constraints_swapped": b})),
                            );
                        }
                    }
                    return;
                }
            }
        }
        match o {
            Out::Rows(rows) => {
                if rows.is_empty() && inner.optional {
                    // an OPTIONAL sub-query without answer leaves the outer row on its own
                    expect.push(vec![orow[0].clone()]);
                }
                for r in rows {
                    expect.push(vec![orow[0].clone(), r[0].clone()]);
                }
            }
            Out::Panic(c) => {
                rep.violation(format!("C08/evaluate/panic/bound-variable/{}/{}", link.kind(), c), ctx(sd, &inner, json!({"bound_to": orow})));
                return;
            }
            _ => {
                rep.count(&format!("subquery/inner-not-answered/{}", link.kind()));
                return;
            }
        }
    }
    rep.distinct(&format!("subquery/{}/{}/{}{}", rtname(outer_rt), rtname(inner_rt), link.kind(), if inner.optional { "/optional" } else { "" }));
    let got: Vec<Row> = nested_rows.clone();
    let (mut gs, mut es) = (got.clone(), expect.clone());
    gs.sort();
    es.sort();
    if gs != es {
        let gset: BTreeSet<&Row> = gs.iter().collect();
        let eset: BTreeSet<&Row> = es.iter().collect();
        let kind = if gset == eset {
            "multiplicity"
        } else if gset.is_subset(&eset) {
            "missing-rows"
        } else if eset.is_subset(&gset) {
            "extra-rows"
        } else {
            "differs"
        };
        // root cause recorded as a finding: after the first outer item without results for its OPTIONAL sub-query the
        // iteration ends (the parent state is marked done), so the answer is the expected rows cut off right after that row
        let cut = expect.iter().position(|r| r.len() == 1).map(|i| expect[..=i].to_vec());
        let sig = if inner.optional && cut.as_ref() == Some(&got) && got.len() < expect.len() {
            "C08/subquery/explained:iteration-ends-after-first-outer-item-without-optional-results".to_string()
        } else {
            format!("C08/subquery/{}/{}/{}{}/{}", rtname(outer_rt), rtname(inner_rt), link.kind(), if inner.optional { "/optional" } else { "" }, kind)
        };
        rep.violation(
            sig,
            ctx(sd, &nested, json!({"got": got, "nested_iteration_with_bound_variable": expect})),
        );
    }
}

// 8. ADD / DELETE against the direct calls on a twin
fn twin(h: &History, milestone: usize, shrink: bool) -> History {
    let mut t = History::new(milestone, shrink);
    for op in &h.ops {
        t.step(op);
    }
    t
}

fn mutations(rep: &mut Report, rng: &mut Rng, h: History, milestone: usize, shrink: bool, sd: &Value) {
    let mut a = h;
    let mut b = twin(&a, milestone, shrink);
    let p = pool(&a.store, rng);
    let same_before = crate::obs::observe(&a.store, true, false).ok() == crate::obs::observe(&b.store, true, false).ok();
    if !same_before {
        rep.count("mutation/twin-differs-before");
        return;
    }
    if rng.chance(1, 2) {
        // DELETE ANNOTATION ?x { SELECT ANNOTATION ?x WHERE c }
        let c = gen_cs(rng, &p, false);
        let mut sel = QS::new(Type::Annotation, vec![c.clone()]);
        sel.name = Some("x".into());
        let victims: Vec<AnnotationHandle> = match guard(|| b.store.query(sel.build()).map(|it| it.filter_map(|r| if let Some(QueryResultItem::Annotation(x)) = r.iter().next() { Some(x.handle()) } else { None }).collect::<Vec<_>>())) {
            Ok(Ok(v)) => v,
            _ => return,
        };
        let before = stam::verif::note_count("query_error");
        let text = format!("DELETE ANNOTATION ?x {{ {} }}", sel.build().to_string().unwrap_or_default());
        if text.contains('\\') || format!("{:?}", c).matches('"').count() != format!("{:?}", c).matches("\\\"").count() * 0 + format!("{:?}", c).matches('"').count() {
            // (never true; ids with quotes are excluded by the generator configuration)
        }
        let r = guard(|| match Query::try_from(text.as_str()) {
            Ok(q) => a.store.query_mut(q).map(|it| it.count()).map_err(|e| format!("{}", e)),
            Err(e) => Err(format!("parse: {}", e)),
        });
        rep.eval();
        if stam::verif::note_count("query_error") != before {
            rep.count("mutation/delete/select-not-answered");
            return;
        }
        match r {
            Err(pn) => {
                rep.violation(format!("C08/delete/panic/{}/{}", c.kind(), pn.class()), json!({"store": sd, "query": text, "panic": pn.msg, "at": pn.loc}));
                return;
            }
            Ok(Err(e)) => {
                // the selection was answered (no query error noted) and every victim exists: the direct calls succeed
                rep.violation(
                    format!("C08/delete/refused/{}/{}", c.kind(), normalise_msg(&e.chars().take(40).collect::<String>())),
                    json!({"store": sd, "query": text, "error": e, "victims": victims.iter().map(|h| h.as_usize()).collect::<Vec<_>>()}),
                );
                return;
            }
            Ok(Ok(_)) => {}
        }
        // direct calls on the twin
        for v in &victims {
            if b.store.annotation(*v).is_some() {
                let _ = guard(|| b.store.remove_annotation(*v));
            }
        }
        rep.distinct(&format!("delete/{}/{}", c.kind(), victims.len().min(3)));
        compare_twins(rep, &a.store, &b.store, &format!("delete/{}", c.kind()), json!({"store": sd, "query": text, "victims": victims.iter().map(|h| h.as_usize()).collect::<Vec<_>>()}));
    } else {
        // ADD ANNOTATION WITH DATA ..; TARGET ?x; { SELECT <rt> ?x WHERE c }
        let rt = *rng.pick(&[Type::TextSelection, Type::Annotation, Type::TextResource, Type::AnnotationDataSet]);
        let c = gen_cs(rng, &p, false);
        let mut sel = QS::new(rt, vec![c.clone()]);
        sel.name = Some("x".into());
        let (valtext, value): (String, DataValue) = match rng.below(4) {
            0 => ("\"added\"".into(), DataValue::String("added".into())),
            1 => ("42".into(), DataValue::Int(42)),
            2 => ("2.5".into(), DataValue::Float(2.5)),
            _ => ("true".into(), DataValue::Bool(true)),
        };
        let (setid, keyid) = if p.keys.is_empty() || rng.chance(1, 3) { ("newset".to_string(), "newkey".to_string()) } else { p.keys[rng.below(p.keys.len())].clone() };
        if setid.contains('"') || keyid.contains('"') || setid.contains('\\') || keyid.contains('\\') {
            return;
        }
        let targets: Vec<QueryResultItem> = match guard(|| b.store.query(sel.build()).map(|it| it.take(50).filter_map(|mut r| r.pop_last()).collect::<Vec<_>>())) {
            Ok(Ok(v)) => v,
            _ => return,
        };
        let builders: Vec<AnnotationBuilder> = targets
            .iter()
            .filter_map(|t| {
                let sel = match t {
                    QueryResultItem::Annotation(x) => SelectorBuilder::annotationselector(x.handle(), None),
                    QueryResultItem::TextSelection(x) => SelectorBuilder::textselector(x.resource().handle(), Offset::simple(x.begin(), x.end())),
                    QueryResultItem::TextResource(x) => SelectorBuilder::resourceselector(x.handle()),
                    QueryResultItem::AnnotationDataSet(x) => SelectorBuilder::datasetselector(x.handle()),
                    _ => return None,
                };
                Some(AnnotationBuilder::new().with_target(sel).with_data(setid.clone(), keyid.clone(), value.clone()))
            })
            .collect();
        if targets.len() >= 50 {
            return;
        }
        let text = format!("ADD ANNOTATION WITH DATA \"{}\" \"{}\" {}; TARGET ?x; {{ {} }}", setid, keyid, valtext, sel.build().to_string().unwrap_or_default());
        let before = stam::verif::note_count("query_error");
        let n_before = a.store.annotations_len();
        let r = guard(|| match Query::try_from(text.as_str()) {
            Ok(q) => a.store.query_mut(q).map(|it| it.map(|row| row.iter().map(item_repr).collect::<Row>()).collect::<Vec<Row>>()).map_err(|e| format!("{}", e)),
            Err(e) => Err(format!("parse: {}", e)),
        });
        rep.eval();
        if stam::verif::note_count("query_error") != before {
            rep.count("mutation/add/select-not-answered");
            return;
        }
        let rows = match r {
            Err(pn) => {
                rep.violation(format!("C08/add/panic/{}/{}/{}", rtname(rt), c.kind(), pn.class()), json!({"store": sd, "query": text, "panic": pn.msg, "at": pn.loc}));
                return;
            }
            Ok(Err(e)) => {
                rep.count(&format!("mutation/add/refused/{}", normalise_msg(&e.chars().take(40).collect::<String>())));
                return;
            }
            Ok(Ok(rows)) => rows,
        };
        let nb = builders.len();
        for bld in builders {
            let _ = guard(|| b.store.annotate(bld));
        }
        rep.distinct(&format!("add/{}/{}/{}", rtname(rt), c.kind(), nb.min(3)));
        // the rows of the ADD query are exactly the new annotations
        let expect_rows: Vec<Row> = (n_before..n_before + nb).map(|h| vec![format!("annotation:{}", h)]).collect();
        if rows != expect_rows {
            rep.violation(format!("C08/add/result-rows/{}", rtname(rt)), json!({"store": sd, "query": text, "rows": rows, "expected_new_annotations": expect_rows}));
        }
        compare_twins(rep, &a.store, &b.store, &format!("add/{}/value:{}", rtname(rt), valtext.trim_matches('"').chars().map(|c| if c.is_ascii_digit() { '9' } else { c }).collect::<String>()), json!({"store": sd, "query": text}));
    }
}

fn compare_twins(rep: &mut Report, a: &AnnotationStore, b: &AnnotationStore, what: &str, detail: Value) {
    rep.eval();
    let oa = crate::obs::observe(a, true, true);
    let ob = crate::obs::observe(b, true, true);
    match (oa, ob) {
        (Ok(x), Ok(y)) => {
            if let Some((path, va, vb)) = first_diff(&y, &x, "") {
                rep.violation(format!("C08/{}/store-differs-from-direct-calls{}", what, path_class(&path)), json!({"context": detail, "path": path, "direct_calls": va, "query": vb}));
            }
        }
        (Err(p), _) => rep.violation(format!("C08/{}/observe-panic/{}", what, p.class()), json!({"context": detail, "panic": p.msg})),
        _ => rep.count("mutation/twin-observe-panicked"),
    }
}

pub fn run_monitor(p: &Params, rep: &mut Report) {
    rep.rule = "stores reached by seeded histories of the C01 generator (all selector kinds, removals, 1-3 resources, data of every value type); per store: 6 rounds of 1-3 constraints drawn from what exists in the store (ids, keys, values, text fragments, plus absent ones) over the six result types, checked for order independence (all permutations), conjunction = intersection of the single-constraint answers, disjunction = duplicate-free union, LIMIT = slice of the unlimited answer (begin/end in [-len-2, len+2]), text form = built form, and for ANNOTATION results a scan of the shadow model for ID / DATA key / DATA key op value; 3 rounds of outer{inner} sub-queries (OPTIONAL 1 in 3) against nested iteration with with_*var bindings; one ADD or DELETE query against direct calls on a twin store; plus unit runs of Handles::union/intersection/contains/add and LimitIter against std collections. distinct_nontrivial = distinct (relation, result type, constraint kinds) with an answered comparison".into();
    rep.assumptions = vec![
        "an evaluation that reports 'not implemented / not valid' for a constraint in a position is recorded as unsupported and not compared".into(),
        "LIMIT with negative begin and positive end is not settled by the documentation and is not judged".into(),
        "sub-query rows are compared as multisets".into(),
        "ids containing quotes or backslashes are not generated (C09 finding)".into(),
    ];
    let total: u64 = if p.thorough { 400000 } else { 6000 };
    for k in p.cases(total) {
        rep.current_case = p.case_coord(k);
        rep.cases += 1;
        let mut rng = Rng::new(p.seed, "c08", k);
        let milestone = *rng.pick(&[100usize, 100, 0, 3]);
        let shrink = rng.chance(1, 2);
        let mut cfg = GenCfg::default();
        cfg.hostile_ids = false;
        cfg.hostile_values = false;
        cfg.allow_semicolon = false;
        cfg.max_anns = 14;
        cfg.idless_rate = (1, 6);
        let nops = rng.range(8, if p.thorough { 40 } else { 28 }) as usize;
        let h = random_history(&mut rng, cfg, nops, milestone, shrink);
        if h.ended.is_some() {
            rep.count("history-ended-early");
        }
        let sd = json!({"history": h.replay_json(), "milestone_interval": milestone});
        for _ in 0..6 {
            relations(rep, &mut rng, &h.store, &h.model, &sd);
        }
        for _ in 0..3 {
            subqueries(rep, &mut rng, &h.store, &sd);
        }
        if rep.samples.len() < 3 {
            let pl = pool(&h.store, &mut rng);
            let q = QS::new(Type::Annotation, vec![gen_cs(&mut rng, &pl, true), gen_cs(&mut rng, &pl, false)]);
            rep.sample(json!({"store_history_ops": h.ops.len(), "example_query": q.describe(), "answer": format!("{:?}", eval(&h.store, &q)).chars().take(300).collect::<String>()}));
        }
        for _ in 0..4 {
            handles_unit(rep, &mut rng, &h.store);
            limit_unit(rep, &mut rng);
        }
        mutations(rep, &mut rng, h, milestone, shrink, &sd);
    }
    // a constraint position that the pinned tree always answered and that is refused now is a regression
    let baseline: Vec<String> = serde_json::from_str(include_str!("../data/c08-support.json")).unwrap_or_default();
    let mut observed: BTreeSet<String> = BTreeSet::new();
    for (k, v) in rep.hist.iter() {
        if let Some(rest) = k.strip_prefix("support/") {
            if *v > 0 {
                observed.insert(rest.to_string());
            }
        }
    }
    for cell in &baseline {
        for state in ["unsupported", "panic"] {
            if observed.contains(&format!("{}/{}", cell, state)) {
                rep.violation(format!("C08/support-regression/{}/{}", cell, state), json!({"cell": cell, "baseline": "always answered on the pinned tree", "now": state}));
            }
        }
    }
    if p.variant.as_deref() == Some("support") {
        let mut cells: BTreeSet<String> = BTreeSet::new();
        for o in &observed {
            if let Some(c) = o.strip_suffix("/ok") {
                if !observed.contains(&format!("{}/unsupported", c)) && !observed.contains(&format!("{}/panic", c)) {
                    cells.insert(c.to_string());
                }
            }
        }
        eprintln!("SUPPORT {}", serde_json::to_string(&cells).unwrap());
    }
}
