//! C07 — text search and partition operations agree with plain string operations.
//! Oracle: the same operation on the plain `str` slice (std / the regex crate run directly), the
//! reference doing its own byte -> codepoint conversion; every iterator is consumed through
//! `take(N_ref + 3)` so that a non-terminating iterator is an observation, not a hang.

use crate::util::*;
use regex::{Regex, RegexSet};
use serde_json::{json, Value};
use stam::*;

/// (absolute begin, absolute end, text)
type Piece = (usize, usize, String);

const ALPHA: [char; 18] = ['a', 'b', 'a', 'b', 'A', 'B', ' ', ' ', ',', 'x', 'é', 'É', 'ß', '日', '😀', 'ẞ', 'İ', 'K'];
// ẞ (3 bytes) lowercases to ß (2 bytes); İ (2 bytes) to "i̇" (2 chars, 3 bytes); K KELVIN SIGN (3 bytes) to k (1 byte)
const ASCII: [char; 9] = ['a', 'b', 'a', 'A', 'B', ' ', ',', 'x', 'b'];
const NOFOLD: [char; 14] = ['a', 'b', 'a', 'b', 'A', 'B', ' ', ' ', ',', 'x', 'é', 'É', '日', '😀'];

fn gen_text(rng: &mut Rng, len: usize, class: usize) -> String {
    (0..len)
        .map(|_| match class {
            0 => *rng.pick(&ASCII[..]),
            1 => *rng.pick(&NOFOLD[..]),
            _ => *rng.pick(&ALPHA[..]),
        })
        .collect()
}

fn textclass(s: &str) -> &'static str {
    if s.is_ascii() {
        "ascii"
    } else if s.chars().any(|c| {
        let l: String = c.to_lowercase().collect();
        l.len() != c.len_utf8()
    }) {
        "casefold-len"
    } else {
        "multibyte"
    }
}

fn chars_of(s: &str, b: usize, e: usize) -> String {
    s.chars().skip(b).take(e.saturating_sub(b)).collect()
}

/// number of codepoints in the first `byte` bytes
fn cc(s: &str, byte: usize) -> usize {
    s[..byte].chars().count()
}

// ---------------------------------------------------------------------------------------------
// references on plain strings: `slice` is the searched text, `base` its absolute begin (codepoints)

fn ref_find(slice: &str, base: usize, needle: &str) -> Vec<Piece> {
    slice.match_indices(needle).map(|(i, m)| (base + cc(slice, i), base + cc(slice, i + m.len()), m.to_string())).collect()
}

/// None: the documentation does not settle the answer (a match would begin or end inside the lower-case expansion of one codepoint)
fn ref_find_nocase(slice: &str, base: usize, needle: &str) -> Option<Vec<Piece>> {
    let mut lowered = String::new();
    // lowered byte offset at which original codepoint i starts
    let mut starts: Vec<usize> = Vec::new();
    for c in slice.chars() {
        starts.push(lowered.len());
        for l in c.to_lowercase() {
            lowered.push(l);
        }
    }
    starts.push(lowered.len());
    if lowered != slice.to_lowercase() {
        return None; // context-sensitive lower-casing (final sigma): out of the reference's reach
    }
    let needle_l = needle.to_lowercase();
    let mut out = Vec::new();
    for (i, m) in lowered.match_indices(needle_l.as_str()) {
        let b = starts.binary_search(&i).ok()?;
        let e = starts.binary_search(&(i + m.len())).ok()?;
        out.push((base + b, base + e, chars_of(slice, b, e)));
    }
    Some(out)
}

fn ref_split(slice: &str, base: usize, delim: &str) -> Vec<Piece> {
    slice
        .split(delim)
        .map(|p| {
            let off = p.as_ptr() as usize - slice.as_ptr() as usize;
            (base + cc(slice, off), base + cc(slice, off + p.len()), p.to_string())
        })
        .collect()
}

/// the text that remains; its position is only settled when it is not empty
fn ref_trim(slice: &str, base: usize, f: &dyn Fn(char) -> bool) -> Piece {
    let t = slice.trim_matches(|c| f(c));
    let off = t.as_ptr() as usize - slice.as_ptr() as usize;
    (base + cc(slice, off), base + cc(slice, off + t.len()), t.to_string())
}

/// leftmost-greedy reading of find_text_sequence; None = the two defensible readings (greedy, backtracking) disagree
fn ref_sequence(slice: &str, base: usize, frags: &[String], skip: &dyn Fn(char) -> bool, case_sensitive: bool) -> Option<Option<Vec<Piece>>> {
    let find = |from_chars: usize, frag: &str| -> Option<Option<(usize, usize)>> {
        let byte: usize = slice.chars().take(from_chars).map(|c| c.len_utf8()).sum();
        let sub = &slice[byte..];
        let all = if case_sensitive { Some(ref_find(sub, from_chars, frag)) } else { ref_find_nocase(sub, from_chars, frag) }?;
        Some(all.first().map(|p| (p.0, p.1)))
    };
    // greedy
    let mut cur = 0usize;
    let mut greedy: Option<Vec<Piece>> = Some(Vec::new());
    for f in frags {
        if f.is_empty() {
            return None; // empty fragments: unsettled
        }
        match find(cur, f)? {
            Some((b, e)) => {
                if chars_of(slice, cur, b).chars().any(|c| !skip(c)) {
                    greedy = None;
                    break;
                }
                greedy.as_mut().unwrap().push((base + b, base + e, chars_of(slice, b, e)));
                cur = e;
            }
            None => {
                greedy = None;
                break;
            }
        }
    }
    if greedy.is_some() {
        return Some(greedy);
    }
    // would any later occurrence make the sequence succeed? then the documentation does not settle it
    fn exists(slice: &str, frags: &[String], from: usize, skip: &dyn Fn(char) -> bool, cs: bool) -> Option<bool> {
        if frags.is_empty() {
            return Some(true);
        }
        let n = slice.chars().count();
        let mut pos = from;
        while pos <= n {
            if pos > from && !skip(slice.chars().nth(pos - 1).unwrap()) {
                return Some(false);
            }
            let byte: usize = slice.chars().take(pos).map(|c| c.len_utf8()).sum();
            let sub = &slice[byte..];
            let hits = if cs { Some(ref_find(sub, pos, &frags[0])) } else { ref_find_nocase(sub, pos, &frags[0]) }?;
            if let Some(h) = hits.iter().find(|h| h.0 == pos) {
                if exists(slice, &frags[1..], h.1, skip, cs)? {
                    return Some(true);
                }
            }
            pos += 1;
        }
        Some(false)
    }
    if exists(slice, frags, 0, skip, case_sensitive)? {
        None
    } else {
        Some(None)
    }
}

/// one regex match: expression index, selections, capture group numbers
#[derive(Debug, Clone, PartialEq, Eq, PartialOrd, Ord)]
struct RMatch {
    expr: usize,
    sels: Vec<(usize, usize)>,
    groups: Vec<usize>,
    /// whole-match span and span of the captured groups (absolute codepoints); used for ordering/overlap only
    whole: (usize, usize),
    caps: (usize, usize),
}

fn ref_regex_single(slice: &str, base: usize, re: &Regex, idx: usize) -> Vec<RMatch> {
    let mut out = Vec::new();
    let p = |b: usize| base + cc(slice, b);
    if re.captures_len() > 1 {
        for c in re.captures_iter(slice) {
            let g0 = c.get(0).unwrap();
            let mut sels = Vec::new();
            let mut groups = Vec::new();
            for i in 1..c.len() {
                if let Some(g) = c.get(i) {
                    sels.push((p(g.start()), p(g.end())));
                    groups.push(i);
                }
            }
            let caps = if sels.is_empty() {
                (p(g0.start()), p(g0.end()))
            } else {
                (sels.iter().map(|s| s.0).min().unwrap(), sels.iter().map(|s| s.1).max().unwrap())
            };
            out.push(RMatch { expr: idx, sels, groups, whole: (p(g0.start()), p(g0.end())), caps });
        }
    } else {
        for m in re.find_iter(slice) {
            let s = (p(m.start()), p(m.end()));
            out.push(RMatch { expr: idx, sels: vec![s], groups: vec![], whole: s, caps: s });
        }
    }
    out
}

/// merged stream of all expressions; `span` picks what "the match" is for ordering and overlap
fn ref_regex(slice: &str, base: usize, res: &[Regex], allow_overlap: bool, span: fn(&RMatch) -> (usize, usize)) -> Vec<RMatch> {
    let mut all: Vec<RMatch> = res.iter().enumerate().flat_map(|(i, r)| ref_regex_single(slice, base, r, i)).collect();
    all.sort_by_key(|m| (span(m).0, m.expr));
    if allow_overlap {
        return all;
    }
    let mut out: Vec<RMatch> = Vec::new();
    for m in all {
        let b = span(&m).0;
        if out.iter().any(|a| a.expr != m.expr && b >= span(a).0 && b < span(a).1) {
            continue;
        }
        out.push(m);
    }
    out
}

/// cut points strictly inside (b,e) where a known selection begins or ends
fn ref_segmentation(known: &[(usize, usize)], b: usize, e: usize) -> Vec<(usize, usize)> {
    if b >= e {
        return Vec::new();
    }
    let mut cuts: Vec<usize> = known.iter().flat_map(|k| [k.0, k.1]).filter(|p| *p > b && *p < e).collect();
    cuts.sort();
    cuts.dedup();
    let mut out = Vec::new();
    let mut cur = b;
    for c in cuts {
        out.push((cur, c));
        cur = c;
    }
    out.push((cur, e));
    out
}

// ---------------------------------------------------------------------------------------------

enum Recv<'a> {
    Res(ResultItem<'a, TextResource>),
    Sel(ResultTextSelection<'a>),
    Item(ResultItem<'a, TextSelection>),
}

macro_rules! with_recv {
    ($r:expr, $x:ident => $e:expr) => {
        match $r {
            Recv::Res($x) => $e,
            Recv::Sel($x) => $e,
            Recv::Item($x) => $e,
        }
    };
}

struct Ctx<'a> {
    text: &'a str,
    range: (usize, usize),
    recv: &'static str,
    known: &'a [(usize, usize)],
    milestone: usize,
}

impl<'a> Ctx<'a> {
    fn recvclass(&self) -> String {
        format!("{}{}", self.recv, if self.recv != "resource" && self.range.0 == 0 { "@0" } else { "" })
    }
    fn detail(&self, op: &str, input: Value, extra: Value) -> Value {
        json!({"text": self.text, "range": [self.range.0, self.range.1], "receiver": self.recv, "op": op, "input": input, "known_selections": self.known, "milestone_interval": self.milestone, "detail": extra})
    }
}

fn pieces_json(p: &[Piece]) -> Value {
    Value::Array(p.iter().map(|x| json!([x.0, x.1, x.2])).collect())
}

/// compare a sequence of selections with the reference; `limit` is what the iterator was capped at
fn judge(rep: &mut Report, ctx: &Ctx, op: &str, cls: &str, input: Value, got: Result<Vec<Piece>, Panic>, expected: &[Piece], limit: usize) {
    rep.eval();
    let sigbase = format!("C07/{}/{}/text:{}{}", op, ctx.recvclass(), textclass(ctx.text), cls);
    let got = match got {
        Err(p) => {
            rep.violation(format!("{}/panic/{}", sigbase, p.class()), ctx.detail(op, input, json!({"panic": p.msg, "at": p.loc, "expected": pieces_json(expected)})));
            return;
        }
        Ok(g) => g,
    };
    if !expected.is_empty() {
        rep.distinct(&format!("{}/{}/{}/n{}", op, ctx.recvclass(), textclass(ctx.text), expected.len().min(4)));
    }
    // every returned selection carries the text that really is at its offsets, inside the searched range
    for g in &got {
        if g.0 > g.1 || g.2 != chars_of(ctx.text, g.0, g.1) {
            rep.violation(format!("{}/text-not-at-offsets", sigbase), ctx.detail(op, input.clone(), json!({"got": pieces_json(&got)})));
            return;
        }
    }
    if got == expected {
        return;
    }
    let d = json!({"got": pieces_json(&got), "expected": pieces_json(expected)});
    let kind = if got.len() >= limit && got.len() > expected.len() {
        "does-not-terminate"
    } else if got.iter().any(|g| g.0 < ctx.range.0 || g.1 > ctx.range.1) {
        "outside-searched-range"
    } else if got.len() == expected.len() && got.iter().zip(expected).all(|(g, e)| g.2 == e.2) {
        "right-text-wrong-offsets"
    } else if got.len() < expected.len() && got.iter().zip(expected).all(|(g, e)| g == e) {
        "ends-early"
    } else if got.len() > expected.len() && got.iter().zip(expected).all(|(g, e)| g == e) {
        "extra"
    } else {
        "differs"
    };
    rep.violation(format!("{}/{}", sigbase, kind), ctx.detail(op, input, d));
}

fn collect<'a>(it: impl Iterator<Item = ResultTextSelection<'a>>, limit: usize) -> Vec<Piece> {
    it.take(limit).map(|t| (t.begin(), t.end(), t.text().to_string())).collect()
}

fn gen_needle(rng: &mut Rng, slice: &str, whole: &str) -> String {
    let n = slice.chars().count();
    match rng.below(10) {
        0 => String::new(),
        1 => (*rng.pick(&["zz", "q", "ab,", "日日日", "é "])).to_string(),
        2 => {
            // a substring of the whole text (may lie outside the slice)
            let wn = whole.chars().count();
            let b = rng.below(wn.max(1));
            chars_of(whole, b, (b + rng.range(1, 3) as usize).min(wn))
        }
        _ if n > 0 => {
            let b = rng.below(n);
            chars_of(slice, b, (b + rng.range(1, 3) as usize).min(n))
        }
        _ => "a".to_string(),
    }
}

fn swapcase(s: &str, rng: &mut Rng) -> String {
    s.chars()
        .flat_map(|c| {
            let v: Vec<char> = if rng.chance(1, 2) {
                vec![c]
            } else if c.is_lowercase() {
                c.to_uppercase().collect()
            } else {
                c.to_lowercase().collect()
            };
            v
        })
        .collect()
}

const RE_PLAIN: [&str; 14] = ["a", "ab", "[ab]+", r"\w+", r"\s+", "é", ".", "a|b", "b+a", r"[^ ,]+", ",", r"\w\w", "日|😀", r"a*"];
const RE_CAPT: [&str; 10] = ["(a)(b)?", r"(\w)(\w)", r"x(\w+)", "(?:a)(b)", "(a)?b", r"(\w+) (\w+)", r",(\s*)", "(é|É)", r"(\w)\w*(\w)", r"a(\s)"];

fn run_ops(rep: &mut Report, rng: &mut Rng, recv: &Recv, ctx: &Ctx) {
    let slice_owned = chars_of(ctx.text, ctx.range.0, ctx.range.1);
    let slice = slice_owned.as_str();
    let base = ctx.range.0;
    let n = slice.chars().count();

    // --- exact search
    for _ in 0..3 {
        let needle = gen_needle(rng, slice, ctx.text);
        let expected = ref_find(slice, base, &needle);
        let limit = expected.len() + 3;
        let got = guard(|| with_recv!(recv, x => collect(x.find_text(&needle), limit)));
        let cls = if needle.is_empty() { "/needle:empty" } else { "" };
        judge(rep, ctx, "find_text", cls, json!({"needle": needle}), got, &expected, limit);
    }
    // --- case-insensitive search
    for _ in 0..3 {
        let needle0 = gen_needle(rng, slice, ctx.text);
        let needle = swapcase(&needle0, rng);
        match ref_find_nocase(slice, base, &needle) {
            None => rep.count("nocase-unsettled"),
            Some(expected) => {
                let limit = expected.len() + 3;
                let got = guard(|| with_recv!(recv, x => collect(x.find_text_nocase(&needle), limit)));
                let cls = if needle.is_empty() { "/needle:empty" } else { "" };
                judge(rep, ctx, "find_text_nocase", cls, json!({"needle": needle}), got, &expected, limit);
            }
        }
    }
    // --- sequence search
    for _ in 0..2 {
        let nf = rng.range(1, 3) as usize;
        let mut frags: Vec<String> = Vec::new();
        // fragments in textual order most of the time
        let mut cur = 0usize;
        for _ in 0..nf {
            if n == 0 {
                break;
            }
            let b = if rng.chance(3, 4) { (cur + rng.below(3)).min(n - 1) } else { rng.below(n) };
            let e = (b + rng.range(1, 2) as usize).min(n);
            frags.push(chars_of(slice, b, e));
            cur = e;
        }
        if frags.is_empty() {
            continue;
        }
        let skipmode = rng.below(3);
        let skip = move |c: char| match skipmode {
            0 => true,
            1 => !c.is_alphabetic(),
            _ => c == ' ' || c == ',',
        };
        let case_sensitive = rng.chance(1, 2);
        let frags2: Vec<String> = if case_sensitive { frags.clone() } else { frags.iter().map(|f| swapcase(f, rng)).collect() };
        let Some(expected) = ref_sequence(slice, base, &frags2, &skip, case_sensitive) else {
            rep.count("sequence-unsettled");
            continue;
        };
        let fr: Vec<&str> = frags2.iter().map(|s| s.as_str()).collect();
        let got = guard(|| with_recv!(recv, x => x.find_text_sequence(&fr, skip, case_sensitive).map(|v| v.iter().map(|t| (t.begin(), t.end(), t.text().to_string())).collect::<Vec<Piece>>())));
        rep.eval();
        let op = if case_sensitive { "find_text_sequence" } else { "find_text_sequence_nocase" };
        let sigbase = format!("C07/{}/{}/text:{}", op, ctx.recvclass(), textclass(ctx.text));
        let skipname = ["any", "non-alphabetic", "space-or-comma"][skipmode];
        let input = json!({"fragments": frags2, "skip": skipname, "case_sensitive": case_sensitive});
        match got {
            Err(p) => rep.violation(format!("{}/panic/{}", sigbase, p.class()), ctx.detail(op, input, json!({"panic": p.msg, "at": p.loc}))),
            Ok(g) => {
                if expected.is_some() {
                    rep.distinct(&format!("{}/{}/{}/found", op, ctx.recvclass(), textclass(ctx.text)));
                }
                if g != expected {
                    let kind = match (&g, &expected) {
                        (None, Some(_)) => "misses-sequence",
                        (Some(_), None) => "finds-nonexistent-sequence",
                        _ => "differs",
                    };
                    rep.violation(format!("{}/{}", sigbase, kind), ctx.detail(op, input, json!({"got": g.as_ref().map(|v| pieces_json(v)), "expected": expected.as_ref().map(|v| pieces_json(v))})));
                }
            }
        }
    }
    // --- split
    for _ in 0..3 {
        let delim = match rng.below(8) {
            0 => String::new(),
            1 => ", ".to_string(),
            2 => "zz".to_string(),
            _ => gen_needle(rng, slice, ctx.text),
        };
        let expected = ref_split(slice, base, &delim);
        let limit = expected.len() + 3;
        let got = guard(|| with_recv!(recv, x => collect(x.split_text(&delim), limit)));
        let cls = if delim.is_empty() { "/delimiter:empty" } else { "" };
        // partition: consecutive pieces are separated by exactly the delimiter and cover the searched range
        if let Ok(g) = &got {
            let dl = delim.chars().count();
            let covers = !g.is_empty() && g[0].0 == ctx.range.0 && g[g.len() - 1].1 == ctx.range.1 && g.windows(2).all(|w| w[1].0 == w[0].1 + dl && chars_of(ctx.text, w[0].1, w[1].0) == delim);
            rep.count(if covers { "split-partitions" } else { "split-does-not-partition" });
        }
        judge(rep, ctx, "split_text", cls, json!({"delimiter": delim}), got, &expected, limit);
    }
    // --- trim
    for _ in 0..2 {
        let set: Vec<char> = match rng.below(5) {
            0 => vec![' '],
            1 => vec![' ', ','],
            2 => slice.chars().take(2).chain(slice.chars().rev().take(1)).collect(),
            3 => slice.chars().collect(), // trims everything
            _ => vec!['a', 'é', '日'],
        };
        let with_fn = rng.chance(1, 2);
        let set2 = set.clone();
        let f = move |c: char| set2.contains(&c);
        let expected = ref_trim(slice, base, &f);
        let op = if with_fn { "trim_text_with" } else { "trim_text" };
        let got = guard(|| {
            let r = if with_fn { with_recv!(recv, x => x.trim_text_with(&f)) } else { with_recv!(recv, x => x.trim_text(&set)) };
            r.map(|t| (t.begin(), t.end(), t.text().to_string())).map_err(|e| e.to_string())
        });
        rep.eval();
        let cls = if expected.2.is_empty() { "/all-trimmed" } else { "" };
        let sigbase = format!("C07/{}/{}/text:{}{}", op, ctx.recvclass(), textclass(ctx.text), cls);
        let input = json!({"chars": set.iter().collect::<String>()});
        match got {
            Err(p) => rep.violation(format!("{}/panic/{}", sigbase, p.class()), ctx.detail(op, input, json!({"panic": p.msg, "at": p.loc}))),
            Ok(Err(e)) => rep.violation(format!("{}/error", sigbase), ctx.detail(op, input, json!({"error": e, "expected": [expected.0, expected.1, expected.2]}))),
            Ok(Ok(g)) => {
                rep.distinct(&format!("{}/{}/{}/{}", op, ctx.recvclass(), textclass(ctx.text), if expected.0 > base { "front" } else { "" }));
                let ok = if expected.2.is_empty() {
                    // an empty remainder: any zero-width selection inside the searched range
                    g.2.is_empty() && g.0 == g.1 && g.0 >= ctx.range.0 && g.1 <= ctx.range.1
                } else {
                    g == expected
                };
                if !ok {
                    rep.violation(format!("{}/differs", sigbase), ctx.detail(op, input, json!({"got": [g.0, g.1, g.2], "expected": [expected.0, expected.1, expected.2]})));
                }
            }
        }
    }
    // --- regular expressions
    for _ in 0..4 {
        let nexpr = *rng.pick(&[1usize, 1, 1, 2, 2, 3, 4]);
        let with_capt = rng.chance(1, 3);
        let mut srcs: Vec<&str> = Vec::new();
        for _ in 0..nexpr {
            srcs.push(if with_capt && rng.chance(2, 3) { *rng.pick(&RE_CAPT[..]) } else { *rng.pick(&RE_PLAIN[..]) });
        }
        let res: Vec<Regex> = srcs.iter().map(|s| Regex::new(s).expect("regex")).collect();
        let allow_overlap = rng.chance(1, 2);
        let precompiled = if rng.chance(1, 2) { Some(RegexSet::new(srcs.iter()).expect("set")) } else { None };
        let e_whole = ref_regex(slice, base, &res, allow_overlap, |m| m.whole);
        let e_caps = ref_regex(slice, base, &res, allow_overlap, |m| m.caps);
        let limit = e_whole.len().max(e_caps.len()) + 3;
        let got = guard(|| {
            let it = with_recv!(recv, x => x.find_text_regex(&res, precompiled.as_ref(), allow_overlap));
            it.map(|it| {
                it.take(limit)
                    .map(|m| {
                        let sels: Vec<(usize, usize)> = m.textselections().iter().map(|t| (t.begin(), t.end())).collect();
                        let texts: Vec<String> = m.textselections().iter().map(|t| t.text().to_string()).collect();
                        (m.expression_index(), sels, m.capturegroups().to_vec(), texts)
                    })
                    .collect::<Vec<_>>()
            })
            .map_err(|e| e.to_string())
        });
        rep.eval();
        let op = "find_text_regex";
        let cls = format!("/exprs:{}{}{}", if nexpr > 2 { "3+" } else if nexpr == 2 { "2" } else { "1" }, if res.iter().any(|r| r.captures_len() > 1) { "+capture" } else { "" }, if nexpr > 1 && !allow_overlap { "+no-overlap" } else { "" });
        let sigbase = format!("C07/{}/{}/text:{}{}", op, ctx.recvclass(), textclass(ctx.text), cls);
        let input = json!({"expressions": srcs, "allow_overlap": allow_overlap, "precompiled_set": precompiled.is_some()});
        let strip = |v: &[RMatch]| -> Vec<(usize, Vec<(usize, usize)>, Vec<usize>)> { v.iter().map(|m| (m.expr, m.sels.clone(), m.groups.clone())).collect() };
        match got {
            Err(p) => rep.violation(format!("{}/panic/{}", sigbase, p.class()), ctx.detail(op, input, json!({"panic": p.msg, "at": p.loc, "expected": format!("{:?}", strip(&e_whole))}))),
            Ok(Err(e)) => rep.violation(format!("{}/error", sigbase), ctx.detail(op, input, json!({"error": e}))),
            Ok(Ok(g)) => {
                // text at offsets
                let mut bad_text = false;
                for m in &g {
                    for (s, t) in m.1.iter().zip(&m.3) {
                        if s.0 > s.1 || *t != chars_of(ctx.text, s.0, s.1) {
                            bad_text = true;
                        }
                    }
                }
                let gs: Vec<(usize, Vec<(usize, usize)>, Vec<usize>)> = g.iter().map(|m| (m.0, m.1.clone(), m.2.clone())).collect();
                let (ew, ec) = (strip(&e_whole), strip(&e_caps));
                if !ew.is_empty() {
                    rep.distinct(&format!("{}/{}/{}{}", op, ctx.recvclass(), textclass(ctx.text), cls));
                }
                let d = json!({"got": format!("{:?}", gs), "expected": format!("{:?}", ew), "expected_if_span_is_captures": format!("{:?}", ec)});
                if bad_text {
                    rep.violation(format!("{}/text-not-at-offsets", sigbase), ctx.detail(op, input, d));
                } else if gs == ew || gs == ec {
                    // agrees with one of the defensible readings
                } else {
                    let settled = ew == ec;
                    let mut a = gs.clone();
                    a.sort();
                    let mut b = ew.clone();
                    b.sort();
                    let kind = if g.len() >= limit {
                        "does-not-terminate"
                    } else if gs.iter().flat_map(|m| m.1.iter()).any(|s| s.0 < ctx.range.0 || s.1 > ctx.range.1) {
                        "outside-searched-range"
                    } else if a == b {
                        if settled {
                            "order"
                        } else {
                            rep.count("regex-order-unsettled");
                            continue;
                        }
                    } else if !settled {
                        // overlap filtering with capture groups: which span counts is not documented
                        let mut c = ec.clone();
                        c.sort();
                        if a == c {
                            rep.count("regex-order-unsettled");
                            continue;
                        }
                        "differs"
                    } else if gs.len() < ew.len() {
                        "missing"
                    } else if gs.len() > ew.len() {
                        "extra"
                    } else {
                        "differs"
                    };
                    rep.violation(format!("{}/{}", sigbase, kind), ctx.detail(op, input, d));
                }
            }
        }
    }
}

fn segmentation_checks(rep: &mut Report, rng: &mut Rng, res: &ResultItem<TextResource>, text: &str, known: &[(usize, usize)], milestone: usize) {
    let len = text.chars().count();
    let mut ranges: Vec<(Option<(usize, usize)>, &'static str)> = vec![(None, "resource")];
    for _ in 0..3 {
        let b = rng.below(len + 1);
        let e = b + rng.below(len - b + 1);
        ranges.push((Some((b, e)), "range"));
        ranges.push((Some((b, e)), "selection"));
    }
    if let Some(k) = known.first() {
        ranges.push((Some(*k), "selection"));
    }
    for (r, how) in ranges {
        let (b, e) = r.unwrap_or((0, len));
        let expected: Vec<Piece> = ref_segmentation(known, b, e).into_iter().map(|(x, y)| (x, y, chars_of(text, x, y))).collect();
        let limit = expected.len() + 3;
        let got = guard(|| match how {
            "resource" => collect(res.segmentation(), limit),
            "range" => collect(res.segmentation_in_range(b, e), limit),
            _ => {
                let ts = res.textselection(&Offset::simple(b, e)).expect("textselection");
                let v: Vec<Piece> = ts.segmentation().take(limit).map(|t| (t.begin(), t.end(), t.text().to_string())).collect();
                v
            }
        });
        if let Ok(g) = &got {
            let partitions = (b == e && g.is_empty()) || (!g.is_empty() && g[0].0 == b && g[g.len() - 1].1 == e && g.windows(2).all(|w| w[0].1 == w[1].0) && g.iter().all(|p| p.0 < p.1));
            rep.count(if partitions { "segmentation-partitions" } else { "segmentation-does-not-partition" });
        }
        let ctx = Ctx { text, range: (b, e), recv: how, known, milestone };
        let cls = format!("/milestones:{}", if milestone > 0 && milestone < len { "inside" } else { "none" });
        judge(rep, &ctx, "segmentation", &cls, json!({"range": [b, e]}), got, &expected, limit);
    }
}

fn store_wide(rep: &mut Report, rng: &mut Rng, store: &AnnotationStore, texts: &[String]) {
    // the store-wide entry points search every resource in handle order
    let whole = texts.concat();
    let ti = rng.below(texts.len());
    let needle = gen_needle(rng, &texts[ti], &whole);
    if !needle.is_empty() {
        let expected: Vec<(usize, Piece)> = texts.iter().enumerate().flat_map(|(i, t)| ref_find(t, 0, &needle).into_iter().map(move |p| (i, p))).collect();
        let limit = expected.len() + 3;
        let got = guard(|| store.find_text(&needle).take(limit).map(|t| (t.resource().handle().as_usize(), (t.begin(), t.end(), t.text().to_string()))).collect::<Vec<_>>());
        rep.eval();
        match got {
            Err(p) => rep.violation(format!("C07/store.find_text/panic/{}", p.class()), json!({"texts": texts, "needle": needle, "panic": p.msg, "at": p.loc})),
            Ok(g) => {
                if !expected.is_empty() {
                    rep.distinct("store.find_text");
                }
                if g != expected {
                    rep.violation("C07/store.find_text/differs", json!({"texts": texts, "needle": needle, "got": format!("{:?}", g), "expected": format!("{:?}", expected)}));
                }
            }
        }
        let needle2 = swapcase(&needle, rng);
        let exp: Option<Vec<(usize, Piece)>> = texts.iter().enumerate().map(|(i, t)| ref_find_nocase(t, 0, &needle2).map(|v| v.into_iter().map(|p| (i, p)).collect::<Vec<_>>())).collect::<Option<Vec<_>>>().map(|v| v.concat());
        if let Some(expected) = exp {
            let limit = expected.len() + 3;
            let got = guard(|| store.find_text_nocase(&needle2).take(limit).map(|t| (t.resource().handle().as_usize(), (t.begin(), t.end(), t.text().to_string()))).collect::<Vec<_>>());
            rep.eval();
            let tc = textclass(&whole);
            match got {
                Err(p) => rep.violation(format!("C07/store.find_text_nocase/text:{}/panic/{}", tc, p.class()), json!({"texts": texts, "needle": needle2, "panic": p.msg, "at": p.loc})),
                Ok(g) => {
                    if !expected.is_empty() {
                        rep.distinct("store.find_text_nocase");
                    }
                    if g != expected {
                        rep.violation(format!("C07/store.find_text_nocase/text:{}/differs", tc), json!({"texts": texts, "needle": needle2, "got": format!("{:?}", g), "expected": format!("{:?}", expected)}));
                    }
                }
            }
        }
    }
    let src = *rng.pick(&RE_PLAIN[..]);
    let res = vec![Regex::new(src).unwrap()];
    let expected: Vec<(usize, (usize, usize))> = texts.iter().enumerate().flat_map(|(i, t)| ref_regex_single(t, 0, &res[0], 0).into_iter().map(move |m| (i, m.sels[0]))).collect();
    let limit = expected.len() + 3;
    let none = None;
    let got = guard(|| store.find_text_regex(&res, &none, true).take(limit).map(|m| (m.resource().handle().as_usize(), (m.textselections()[0].begin(), m.textselections()[0].end()))).collect::<Vec<_>>());
    rep.eval();
    match got {
        Err(p) => rep.violation(format!("C07/store.find_text_regex/panic/{}", p.class()), json!({"texts": texts, "expression": src, "panic": p.msg, "at": p.loc})),
        Ok(g) => {
            if !expected.is_empty() {
                rep.distinct("store.find_text_regex");
            }
            if g != expected {
                rep.violation("C07/store.find_text_regex/differs", json!({"texts": texts, "expression": src, "got": format!("{:?}", g), "expected": format!("{:?}", expected)}));
            }
        }
    }
}

fn one_case(rep: &mut Report, rng: &mut Rng, thorough: bool) {
    let milestone = *rng.pick(&[100usize, 100, 0, 3, 5]);
    let nres = if rng.chance(1, 4) { 2 } else { 1 };
    let mut store = AnnotationStore::new(Config::default().with_debug(false).with_milestone_interval(milestone)).with_id("c07");
    let mut texts: Vec<String> = Vec::new();
    for i in 0..nres {
        let len = rng.range(0, if thorough { 40 } else { 24 }) as usize;
        let class = rng.below(4).min(2);
        let t = if rng.chance(1, 30) { String::new() } else { gen_text(rng, len.max(1), class) };
        store.add_resource(TextResourceBuilder::new().with_id(format!("r{}", i)).with_text(t.clone())).expect("resource");
        texts.push(t);
    }
    // known selections on resource 0
    let text = texts[0].clone();
    let len = text.chars().count();
    let mut known: Vec<(usize, usize)> = Vec::new();
    for i in 0..rng.below(6) {
        let b = rng.below(len + 1);
        let e = b + rng.below((len - b).min(10) + 1);
        if known.contains(&(b, e)) {
            continue;
        }
        store.annotate(AnnotationBuilder::new().with_id(format!("a{}", i)).with_target(SelectorBuilder::textselector("r0", Offset::simple(b, e))).with_data("s", "k", i as isize)).expect("annotate");
        known.push((b, e));
    }
    let res = store.resource("r0").expect("resource");
    // receivers: the resource, unbound and bound sub-selections, and the bound selection as ResultItem<TextSelection>
    let ctx = Ctx { text: &text, range: (0, len), recv: "resource", known: &known, milestone };
    run_ops(rep, rng, &Recv::Res(res.clone()), &ctx);
    let mut ranges: Vec<(usize, usize)> = Vec::new();
    for _ in 0..3 {
        let b = rng.below(len + 1);
        let e = b + rng.below(len - b + 1);
        ranges.push((b, e));
    }
    ranges.push((0, len));
    if !known.is_empty() {
        ranges.push(known[rng.below(known.len())]);
    }
    for (b, e) in ranges {
        let ts = res.textselection(&Offset::simple(b, e)).expect("textselection");
        let bound = ts.handle().is_some();
        let ctx = Ctx { text: &text, range: (b, e), recv: if bound { "bound-selection" } else { "unbound-selection" }, known: &known, milestone };
        run_ops(rep, rng, &Recv::Sel(ts.clone()), &ctx);
        if let Some(item) = ts.as_resultitem() {
            let ctx = Ctx { text: &text, range: (b, e), recv: "textselection-item", known: &known, milestone };
            run_ops(rep, rng, &Recv::Item(item.clone()), &ctx);
        }
    }
    segmentation_checks(rep, rng, &res, &text, &known, milestone);
    store_wide(rep, rng, &store, &texts);
    if rep.samples.len() < 3 {
        rep.sample(json!({"texts": texts, "known_selections": known, "milestone_interval": milestone}));
    }
}

pub fn run(p: &Params, rep: &mut Report) {
    rep.rule = "seeded texts of 0-24 (40) codepoints over ASCII / 1-4 byte codepoints / codepoints whose lower-casing changes byte or codepoint length (ẞ İ K), 1-2 resources, 0-5 known selections, milestone interval 0/3/5/100; each operation run on the whole resource, on 3 random sub-ranges, the full range as a selection and a known selection (receivers: ResultItem<TextResource>, unbound and bound ResultTextSelection, ResultItem<TextSelection>); needles/delimiters drawn from the searched slice, the rest of the text, absent strings and the empty string; regexes from a fixed pool of 14 plain and 10 capturing expressions, 1-4 at a time, with and without overlap and precompiled set; every iterator capped at reference length + 3. evaluations = operation results compared with the plain-string reference; distinct_nontrivial = distinct (operation, receiver class, text class, result size class) with a non-empty reference result".into();
    rep.assumptions = vec![
        "references are std::str::{match_indices, split, trim_matches} and the regex crate run directly on the slice, with the reference's own byte->codepoint conversion".into(),
        "case-insensitive matches that would begin or end inside the lower-case expansion of a single codepoint, sequence searches where leftmost-greedy and backtracking readings disagree, empty sequence fragments, the position of an empty trim result, and the order/overlap filtering of multi-expression matches when whole-match span and capture span give different answers are counted as unsettled and not judged".into(),
        "non-overlapping regex search drops a match that begins inside an earlier accepted match of a different expression".into(),
    ];
    let total: u64 = if p.thorough { 160000 } else { 960 };
    for k in p.cases(total) {
        rep.current_case = p.case_coord(k);
        rep.cases += 1;
        let mut rng = Rng::new(p.seed, "c07", k);
        one_case(rep, &mut rng, p.thorough);
    }
}
