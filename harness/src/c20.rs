//! C20 — concurrent readers of a shared store see sequential results.
//! (i) deterministic schedules: reader threads park at every yield point (hooked where the shared serialisation
//!     mode and the changed flags are read or written); a controller grants one step at a time and enumerates
//!     interleavings depth-first (bounded) and by seeded sampling; (ii) free-running stress with the hook
//!     injecting yields and short sleeps. Oracle: every thread's result equals what the same call returns when
//!     it runs alone on the same store, before and after; the hooked dump of the store is unchanged.

use crate::util::*;
use rayon::prelude::*;
use serde_json::{json, Value};
use stam::*;
use std::cell::Cell;
use std::sync::atomic::{AtomicU64, AtomicUsize, Ordering};
use std::sync::{Arc, Condvar, Mutex, OnceLock};

// ---------------------------------------------------------------------------------------------
// scheduler

#[derive(Default)]
struct State {
    active: bool,
    parked: Vec<Option<&'static str>>,
    finished: Vec<bool>,
    grant: Option<usize>,
    trace: Vec<(usize, &'static str)>,
}

struct Sched {
    state: Mutex<State>,
    cv: Condvar,
}

static SCHED: OnceLock<Arc<Sched>> = OnceLock::new();
/// 0 = pass through, 1 = controlled schedules, 2 = stress (random yields)
static MODE: AtomicUsize = AtomicUsize::new(0);
static STRESS_SEED: AtomicU64 = AtomicU64::new(1);
static YIELDS_SEEN: AtomicU64 = AtomicU64::new(0);

thread_local! {
    static TID: Cell<Option<usize>> = Cell::new(None);
    static LOCAL_RNG: Cell<u64> = Cell::new(0);
}

fn sched() -> &'static Arc<Sched> {
    SCHED.get_or_init(|| {
        let s = Arc::new(Sched { state: Mutex::new(State::default()), cv: Condvar::new() });
        stam::verif::set_yield_hook(Box::new(hook));
        s
    })
}

fn hook(site: &'static str) {
    match MODE.load(Ordering::SeqCst) {
        1 => {
            let Some(tid) = TID.with(|t| t.get()) else { return };
            let s = sched();
            let mut st = s.state.lock().unwrap();
            if !st.active {
                return;
            }
            st.parked[tid] = Some(site);
            s.cv.notify_all();
            while st.grant != Some(tid) {
                st = s.cv.wait(st).unwrap();
            }
            st.grant = None;
            st.parked[tid] = None;
            st.trace.push((tid, site));
            s.cv.notify_all();
        }
        2 => {
            YIELDS_SEEN.fetch_add(1, Ordering::Relaxed);
            let r = LOCAL_RNG.with(|c| {
                let mut x = c.get();
                if x == 0 {
                    x = STRESS_SEED.load(Ordering::Relaxed) ^ (std::thread::current().id().as_u64_compat());
                }
                x ^= x << 13;
                x ^= x >> 7;
                x ^= x << 17;
                c.set(x);
                x
            });
            match r % 8 {
                0 | 1 => std::thread::yield_now(),
                2 => std::thread::sleep(std::time::Duration::from_micros(r % 50)),
                _ => {}
            }
        }
        _ => {}
    }
}

trait ThreadIdCompat {
    fn as_u64_compat(&self) -> u64;
}
impl ThreadIdCompat for std::thread::ThreadId {
    fn as_u64_compat(&self) -> u64 {
        // stable substitute for ThreadId::as_u64
        let s = format!("{:?}", self);
        s.bytes().filter(|b| b.is_ascii_digit()).fold(0u64, |a, b| a * 10 + (b - b'0') as u64) + 0x9e37
    }
}

// ---------------------------------------------------------------------------------------------
// reader operations

#[derive(Debug, Clone, Copy, PartialEq, Eq, PartialOrd, Ord)]
enum ROp {
    StoreJson,
    ResourceToJson,
    DatasetToJson,
    ResourceInherentJson,
    Query,
    RelatedText,
    Parallel,
    QueryResultJson,
    /// ToJson::to_json_file on a resource (takes &self): writes a scratch file, returns what it wrote
    ResourceToJsonFile,
    /// ToCsv::to_csv_string on a dataset / on the store (manifest table): also takes &self
    DatasetToCsv,
    StoreCsvManifest,
    /// TextResource::to_txt_file (takes &self) to a scratch path that is not the resource's own stand-off file
    ResourceToTxtFile,
    /// the inherent AnnotationDataSet::to_json_string / to_json_value (no Config argument)
    DatasetInherentJson,
}

const ALL_OPS: [ROp; 13] = [ROp::StoreJson, ROp::ResourceToJson, ROp::DatasetToJson, ROp::ResourceInherentJson, ROp::Query, ROp::RelatedText, ROp::Parallel, ROp::QueryResultJson, ROp::ResourceToJsonFile, ROp::DatasetToCsv, ROp::StoreCsvManifest, ROp::ResourceToTxtFile, ROp::DatasetInherentJson];

fn run_op(store: &AnnotationStore, op: ROp) -> String {
    match op {
        ROp::StoreJson => store.to_json_string(store.config()).unwrap_or_else(|e| format!("ERR {}", e)),
        ROp::ResourceToJson => {
            let r = store.resources().next().expect("resource");
            ToJson::to_json_string(r.as_ref(), store.config()).unwrap_or_else(|e| format!("ERR {}", e))
        }
        ROp::DatasetToJson => {
            let s = store.datasets().next().expect("dataset");
            ToJson::to_json_string(s.as_ref(), store.config()).unwrap_or_else(|e| format!("ERR {}", e))
        }
        ROp::ResourceInherentJson => {
            let r = store.resources().last().expect("resource");
            TextResource::to_json_string(r.as_ref()).unwrap_or_else(|e| format!("ERR {}", e))
        }
        ROp::Query => {
            let q: Query = "SELECT ANNOTATION ?a WHERE DATA \"s\" \"k\";".try_into().expect("query");
            match store.query(q) {
                Ok(it) => it.map(|row| row.iter().map(crate::c08::item_repr).collect::<Vec<_>>().join(",")).collect::<Vec<_>>().join(";"),
                Err(e) => format!("ERR {}", e),
            }
        }
        ROp::RelatedText => {
            let r = store.resources().next().expect("resource");
            let t = r.textselection(&Offset::simple(0, 6)).expect("sel");
            t.related_text(TextSelectionOperator::overlaps()).map(|x| format!("{}-{}", x.begin(), x.end())).collect::<Vec<_>>().join(",")
        }
        ROp::Parallel => {
            let mut ids: Vec<usize> = store.annotations().parallel().map(|a| a.handle().as_usize() + a.data().count()).collect();
            ids.sort();
            let mut texts: Vec<String> = store.annotations().textselections().map(|t| t.text().to_string()).collect::<Vec<_>>().into_par_iter().collect();
            texts.sort();
            format!("{:?}{:?}", ids, texts)
        }
        ROp::ResourceToJsonFile => {
            let r = store.resources().next().expect("resource");
            // a scratch file per thread, outside the directory of the stand-off files
            static N: AtomicU64 = AtomicU64::new(0);
            let path = std::env::temp_dir().join(format!("c20-scratch-{}-{}.json", std::process::id(), N.fetch_add(1, Ordering::Relaxed)));
            let p = path.to_string_lossy().to_string();
            let out = match ToJson::to_json_file(r.as_ref(), &p, store.config()) {
                Ok(()) => std::fs::read_to_string(&path).unwrap_or_else(|e| format!("ERR read {}", e)),
                Err(e) => format!("ERR {}", e),
            };
            let _ = std::fs::remove_file(&path);
            out
        }
        ROp::ResourceToTxtFile => {
            let r = store.resources().next().expect("resource");
            static M: AtomicU64 = AtomicU64::new(0);
            let path = std::env::temp_dir().join(format!("c20-scratch-{}-{}.txt", std::process::id(), M.fetch_add(1, Ordering::Relaxed)));
            let p = path.to_string_lossy().to_string();
            let out = match r.as_ref().to_txt_file(&p) {
                Ok(()) => std::fs::read_to_string(&path).unwrap_or_else(|e| format!("ERR read {}", e)),
                Err(e) => format!("ERR {}", e),
            };
            let _ = std::fs::remove_file(&path);
            out
        }
        ROp::DatasetInherentJson => {
            let s = store.datasets().next().expect("dataset");
            let a = AnnotationDataSet::to_json_string(s.as_ref()).unwrap_or_else(|e| format!("ERR {}", e));
            let b = s.as_ref().to_json_value().map(|v| v.to_string()).unwrap_or_else(|e| format!("ERR {}", e));
            format!("{}\n{}", a, b)
        }
        ROp::DatasetToCsv => {
            let s = store.datasets().next().expect("dataset");
            ToCsv::to_csv_string(s.as_ref(), None).unwrap_or_else(|e| format!("ERR {}", e))
        }
        ROp::StoreCsvManifest => ToCsv::to_csv_string(store, None).unwrap_or_else(|e| format!("ERR {}", e)),
        ROp::QueryResultJson => {
            let q: Query = "SELECT RESOURCE ?r".try_into().expect("query");
            match store.query(q) {
                Ok(it) => it.map(|row| row.iter().map(|i| i.to_json_string().unwrap_or_else(|e| format!("ERR {}", e))).collect::<Vec<_>>().join(",")).collect::<Vec<_>>().join(";"),
                Err(e) => format!("ERR {}", e),
            }
        }
    }
}

thread_local! {
    /// name the stand-off members of the next store with file:// URLs (absolute) instead of relative names
    static FILE_URLS: std::cell::Cell<bool> = std::cell::Cell::new(false);
}

thread_local! {
    /// build the next stand-off store with Config::with_use_include(false): members are written inline although they have files
    static USE_INCLUDE_OFF: std::cell::Cell<bool> = std::cell::Cell::new(false);
}

fn build_store(dir: &str, standoff: bool, changed: bool) -> AnnotationStore {
    build_store_kind(dir, standoff, changed, false)
}

fn build_store_kind(dir: &str, standoff: bool, changed: bool, json_resources: bool) -> AnnotationStore {
    build_store_full(dir, standoff, changed, json_resources, true)
}

/// `sync` = bring files and changed flags in step by one serialisation after loading (loading marks every member as changed)
fn build_store_full(dir: &str, standoff: bool, changed: bool, json_resources: bool, sync: bool) -> AnnotationStore {
    let _ = std::fs::remove_dir_all(dir);
    std::fs::create_dir_all(dir).expect("dir");
    let mut store = AnnotationStore::new(Config::default().with_debug(false).with_workdir(dir.to_string())).with_id("c20");
    store.add_resource(TextResourceBuilder::new().with_id("r1").with_text("Hello wörld, this is text")).unwrap();
    store.add_resource(TextResourceBuilder::new().with_id("r2").with_text("second 日本 text")).unwrap();
    for (i, (b, e)) in [(0usize, 5usize), (6, 11), (13, 17), (0, 11)].iter().enumerate() {
        store.annotate(AnnotationBuilder::new().with_id(format!("a{}", i)).with_target(SelectorBuilder::textselector("r1", Offset::simple(*b, *e))).with_data("s", "k", i as isize)).unwrap();
    }
    store.annotate(AnnotationBuilder::new().with_id("b0").with_target(SelectorBuilder::textselector("r2", Offset::simple(0, 6))).with_data("s2", "k", "v")).unwrap();
    if !standoff {
        return store;
    }
    let rh: Vec<TextResourceHandle> = store.resources().map(|r| r.handle()).collect();
    for (i, h) in rh.iter().enumerate() {
        let r: &mut TextResource = store.get_mut(*h).unwrap();
        let name = format!("res{}.{}", i, if json_resources && i == 0 { "resource.stam.json" } else { "txt" });
        r.set_filename(&if FILE_URLS.with(|f| f.get()) { format!("file://{}/{}", dir, name) } else { name });
    }
    let sh: Vec<AnnotationDataSetHandle> = store.datasets().map(|s| s.handle()).collect();
    for (i, h) in sh.iter().enumerate() {
        let s: &mut AnnotationDataSet = store.get_mut(*h).unwrap();
        let name = format!("set{}.annotationset.stam.json", i);
        s.set_filename(&if FILE_URLS.with(|f| f.get()) { format!("file://{}/{}", dir, name) } else { name });
    }
    let path = format!("{}/c20.store.stam.json", dir);
    store.to_file(&path).expect("write");
    let mut loaded = AnnotationStore::from_file(&path, Config::default().with_debug(false).with_workdir(dir.to_string()).with_use_include(!USE_INCLUDE_OFF.with(|f| f.get()))).expect("reload");
    // loading marks the members as changed: a first serialisation brings files and flags in sync; readers come afterwards
    if sync {
        let _ = loaded.to_json_string(loaded.config());
    }
    if changed {
        // a new annotation with new data marks store and dataset as changed
        loaded.annotate(AnnotationBuilder::new().with_id("late").with_target(SelectorBuilder::textselector("r1", Offset::simple(18, 22))).with_data("s", "k", 99isize)).unwrap();
    }
    loaded
}

#[cfg(feature = "dump")]
fn dump_of(store: &AnnotationStore) -> Value {
    let mut d = store.verif_dump();
    strip_flags(&mut d);
    d
}
#[cfg(not(feature = "dump"))]
fn dump_of(_store: &AnnotationStore) -> Value {
    Value::Null
}

#[allow(dead_code)]
fn strip_flags(v: &mut Value) {
    match v {
        Value::Object(m) => {
            m.remove("changed");
            m.remove("serialize_mode");
            m.values_mut().for_each(strip_flags);
        }
        Value::Array(a) => a.iter_mut().for_each(strip_flags),
        _ => {}
    }
}

/// one controlled execution; returns the results per thread, the branching factor and the choice taken at every step
fn run_schedule(store: &AnnotationStore, ops: &[ROp], prefix: &[usize], rng: Option<&mut Rng>) -> (Vec<Result<String, String>>, Vec<usize>, Vec<usize>, Vec<(usize, &'static str)>) {
    let s = sched();
    {
        let mut st = s.state.lock().unwrap();
        st.active = true;
        st.parked = vec![None; ops.len()];
        st.finished = vec![false; ops.len()];
        st.grant = None;
        st.trace.clear();
    }
    MODE.store(1, Ordering::SeqCst);
    let mut rng = rng;
    let results: Vec<Mutex<Option<Result<String, String>>>> = ops.iter().map(|_| Mutex::new(None)).collect();
    let mut branch = Vec::new();
    let mut chosen = Vec::new();
    std::thread::scope(|scope| {
        for (tid, op) in ops.iter().enumerate() {
            let results = &results;
            let op = *op;
            scope.spawn(move || {
                TID.with(|t| t.set(Some(tid)));
                hook("start");
                let r = std::panic::catch_unwind(std::panic::AssertUnwindSafe(|| run_op(store, op))).map_err(|_| "panic".to_string());
                *results[tid].lock().unwrap() = Some(r);
                let s = sched();
                let mut st = s.state.lock().unwrap();
                st.finished[tid] = true;
                s.cv.notify_all();
                TID.with(|t| t.set(None));
            });
        }
        // controller
        let mut step = 0usize;
        loop {
            let mut st = s.state.lock().unwrap();
            while !(0..ops.len()).all(|i| st.finished[i] || st.parked[i].is_some()) || st.grant.is_some() {
                st = s.cv.wait(st).unwrap();
            }
            let enabled: Vec<usize> = (0..ops.len()).filter(|i| !st.finished[*i] && st.parked[*i].is_some()).collect();
            if enabled.is_empty() {
                break;
            }
            let pick = if step < prefix.len() {
                prefix[step] % enabled.len()
            } else if let Some(r) = rng.as_deref_mut() {
                r.below(enabled.len())
            } else {
                0
            };
            branch.push(enabled.len());
            chosen.push(pick);
            st.grant = Some(enabled[pick]);
            s.cv.notify_all();
            step += 1;
        }
    });
    MODE.store(0, Ordering::SeqCst);
    let trace = {
        let mut st = s.state.lock().unwrap();
        st.active = false;
        st.trace.clone()
    };
    (results.into_iter().map(|m| m.into_inner().unwrap().unwrap_or(Err("no result".into()))).collect(), branch, chosen, trace)
}

/// name, size and modification time of every file of the work directory
fn dir_state(dir: &str) -> Vec<(String, u64, u128)> {
    let mut v: Vec<(String, u64, u128)> = std::fs::read_dir(dir)
        .map(|rd| {
            rd.flatten()
                .filter_map(|e| {
                    let m = e.metadata().ok()?;
                    let t = m.modified().ok()?.duration_since(std::time::UNIX_EPOCH).ok()?.as_nanos();
                    Some((e.file_name().to_string_lossy().to_string(), m.len(), t))
                })
                .collect()
        })
        .unwrap_or_default();
    v.sort();
    v
}

/// name -> content of every file of the work directory
fn dir_content(dir: &str) -> std::collections::BTreeMap<String, String> {
    std::fs::read_dir(dir)
        .map(|rd| rd.flatten().filter_map(|e| Some((e.file_name().to_string_lossy().to_string(), String::from_utf8_lossy(&std::fs::read(e.path()).ok()?).to_string()))).collect())
        .unwrap_or_default()
}

/// A store with changed stand-off members: what a reader leaves on disk (the first serialisation of the store writes the
/// changed members out) must not depend on which other reader ran before it. Sequential, three fresh stores per pair.
fn disk_effects(rep: &mut Report, dir: &str, kind: &str, ops: &[ROp], all_changed: bool) {
    let kind = if all_changed { "standoff-just-loaded" } else { kind };
    let fresh = |tag: &str| -> (AnnotationStore, String) {
        let d = format!("{}-{}", dir, tag);
        // all_changed: no serialisation since loading, every stand-off member is still flagged as changed
        let store = build_store_full(&d, true, true, all_changed, !all_changed);
        // the member files go, so that writing one is visible whatever its content
        if let Ok(rd) = std::fs::read_dir(&d) {
            for e in rd.flatten() {
                let n = e.file_name().to_string_lossy().to_string();
                if n.starts_with("res") || n.starts_with("set") {
                    let _ = std::fs::remove_file(e.path());
                }
            }
        }
        (store, d)
    };
    // (file names inside the files may carry the directory: it is taken out before comparing)
    let content = |d: &str| -> std::collections::BTreeMap<String, String> { dir_content(d).into_iter().map(|(k, v)| (k, v.replace(d, "<dir>"))).collect() };
    let (s0, d0) = fresh("d0");
    let init = content(&d0);
    let _ = run_op(&s0, ops[0]);
    let c0 = content(&d0);
    let (s1, d1) = fresh("d1");
    let _ = run_op(&s1, ops[1]);
    let c1 = content(&d1);
    let (s01, d01) = fresh("d01");
    let _ = run_op(&s01, ops[0]);
    let _ = run_op(&s01, ops[1]);
    let c01 = content(&d01);
    rep.eval();
    rep.distinct(&format!("disk-effects/{}/{:?}", kind, ops));
    let names: std::collections::BTreeSet<&String> = init.keys().chain(c0.keys()).chain(c1.keys()).chain(c01.keys()).collect();
    for name in names {
        let before = init.get(name);
        let w0 = c0.get(name) != before;
        let w1 = c1.get(name) != before;
        let w01 = c01.get(name) != before;
        let fname = name.split('.').skip(1).collect::<Vec<_>>().join(".");
        if (w0 || w1) && !w01 {
            rep.violation(
                format!("C20/{}/file-not-written-after-another-reader/{}-then-{}/{}", kind, opname(ops[0]), opname(ops[1]), fname),
                json!({"file": name, "written_by_first_alone": w0, "written_by_second_alone": w1, "written_by_first_then_second": w01}),
            );
        } else if w01 && c01.get(name) != c0.get(name) && c01.get(name) != c1.get(name) {
            rep.violation(
                format!("C20/{}/file-content-depends-on-earlier-reader/{}-then-{}/{}", kind, opname(ops[0]), opname(ops[1]), fname),
                json!({"file": name, "first_alone": c0.get(name), "second_alone": c1.get(name), "first_then_second": c01.get(name)}),
            );
        }
        if w0 || w1 {
            rep.count(&format!("disk-effects/written/{}", fname));
        }
    }
    for d in [d0, d1, d01] {
        let _ = std::fs::remove_dir_all(&d);
    }
}

fn opname(o: ROp) -> String {
    format!("{:?}", o)
}

fn judge(rep: &mut Report, storekind: &str, ops: &[ROp], base: &[String], got: &[Result<String, String>], schedule: Value) -> bool {
    rep.eval();
    for (i, g) in got.iter().enumerate() {
        let ok = matches!(g, Ok(s) if *s == base[i]);
        if !ok {
            let mut others: Vec<String> = ops.iter().enumerate().filter(|(j, _)| *j != i).map(|(_, o)| opname(*o)).collect();
            others.sort();
            others.dedup();
            let what = match g {
                Err(e) => e.clone(),
                Ok(s) => {
                    if base[i].contains("@include") && !s.contains("@include") {
                        "inlines-what-it-includes-when-alone".into()
                    } else if !base[i].contains("@include") && s.contains("@include") {
                        "includes-what-it-inlines-when-alone".into()
                    } else {
                        "differs".into()
                    }
                }
            };
            // recorded root cause: ToJson::to_json_string / to_json_file on a resource or dataset switch the serialisation
            // mode cell that every clone of the store's Config shares, for the duration of their own serialisation
            let toggler = ops.iter().enumerate().any(|(j, o)| j != i && matches!(o, ROp::ResourceToJson | ROp::DatasetToJson | ROp::ResourceToJsonFile));
            let sig = if toggler && what.contains("when-alone") || (toggler && what == "differs" && matches!(ops[i], ROp::StoreJson | ROp::QueryResultJson | ROp::DatasetInherentJson)) {
                "C20/explained:resource-or-dataset-serialisation-toggles-the-mode-cell-shared-by-all-config-clones".to_string()
            } else {
                format!("C20/{}/{}-disturbed-by-{}/{}", storekind, opname(ops[i]), others.join("+"), what)
            };
            rep.violation(
                sig,
                json!({"store": storekind, "threads": ops.iter().map(|o| opname(*o)).collect::<Vec<_>>(), "disturbed_thread": i, "schedule": schedule, "alone": base[i].chars().take(700).collect::<String>(), "concurrent": g.clone().unwrap_or_else(|e| e).chars().take(700).collect::<String>()}),
            );
            return false;
        }
    }
    true
}

/// the first reader that serialises the store writes out the text file of a resource that was added after the last save
/// (documented); whatever the name of that file is, the other reader sees what it sees alone. A fresh store per schedule:
/// writing the file out clears the changed flag
fn late_resource_job(rep: &mut Report, rng: &mut Rng, dir: &str, ops: &[ROp], samples: usize) {
    let kind = "standoff-late-resource";
    for name in ["notes.md", "README", "notes.txt"] {
        let fresh = || -> AnnotationStore {
            let mut s = build_store_full(dir, true, false, false, true);
            s.add_resource(TextResourceBuilder::new().with_id("notes").with_text("late text, n\u{f6}ch nicht geschrieben").with_filename(&format!("{}/{}", dir, name))).expect("late resource");
            s
        };
        let built = guard(|| ops.iter().map(|o| run_op(&fresh(), *o)).collect::<Vec<String>>());
        let base = match built {
            Ok(b) => b,
            Err(pn) => {
                rep.violation(format!("C20/{}/store-cannot-be-set-up/{}", kind, normalise_msg(&pn.msg.chars().take(60).collect::<String>())), json!({"store": kind, "file": name, "panic": pn.msg, "at": pn.loc}));
                return;
            }
        };
        for _ in 0..samples {
            let Ok(store) = guard(|| fresh()) else { return };
            let (got, _, chosen, trace) = run_schedule(&store, ops, &[], Some(&mut *rng));
            rep.distinct(&format!("{}/{}/{:?}/{:?}", kind, name, ops, trace));
            rep.count(&format!("schedules/{}/{}+{}", kind, opname(ops[0]), opname(ops[1])));
            if !judge(rep, kind, ops, &base, &got, json!({"file": name, "choices": chosen, "trace": trace.iter().map(|(t, s)| format!("T{}:{}", t, s)).collect::<Vec<_>>()})) {
                break;
            }
        }
        MODE.store(0, Ordering::SeqCst);
    }
}

pub fn run(p: &Params, rep: &mut Report) {
    rep.rule = "stores with inline members and with stand-off (@include) resources and datasets (written to the work directory and reloaded; unchanged, changed by one more annotation, with a STAM JSON resource, and loaded with use_include switched off); reader operations: store.to_json_string, ToJson::to_json_string on a resource and on a dataset, ToJson::to_json_file on a resource (scratch file), ToCsv::to_csv_string on a dataset and on the store, TextResource::to_txt_file, TextResource::to_json_string, AnnotationDataSet::to_json_string / to_json_value, a SELECT query, QueryResultItem::to_json_string, related_text, the .parallel() adaptors. (i) controlled schedules: each reader parks at every yield point (serialisation-mode reads and writes, changed-flag reads and writes); for every pair of operations interleavings are enumerated depth-first up to a budget and then sampled with a seeded generator; triples are sampled; (ii) stress: 4-12 free-running threads with the hook injecting yield_now and microsecond sleeps. Every result is compared with the result of the same call running alone before and after, and the hooked dump must be unchanged; (iii) changed stand-off stores: the files a reader leaves behind must not depend on the reader that ran before it; (iv) a stand-off store with a plain-text resource added after the last save (file names notes.md, README, notes.txt; a fresh store per schedule): store.to_json_string, which writes that file out, paired with every reader. distinct_nontrivial = distinct (store kind, operation tuple, interleaving trace) executed".into();
    rep.assumptions = vec!["yield points sit before every read or write of Config.serialize_mode and the changed flags (feature verif); other code between them is treated as atomic by the controlled schedules and exercised by the stress runs".into()];
    if let Some(v) = p.variant.as_deref() {
        if v == "miri" || v == "tsan" {
            sanitizer_workload(p, rep, v == "miri");
            return;
        }
    }
    let budget_pairs: usize = if p.thorough { 600 } else { 60 };
    let sampled: usize = if p.thorough { 300 } else { 30 };
    let stress_rounds: usize = if p.thorough { 2000 } else { 150 };
    let storekinds = [("inline", false, false), ("standoff-unchanged", true, false), ("standoff-changed", true, true), ("standoff-json-resource", true, false), ("standoff-use-include-off", true, false), ("standoff-file-urls-changed", true, true)];
    // the work is split over shards by (store kind, operation pair)
    let mut jobs: Vec<(usize, Vec<ROp>)> = Vec::new();
    for sk in 0..storekinds.len() {
        for i in 0..ALL_OPS.len() {
            for j in i..ALL_OPS.len() {
                jobs.push((sk, vec![ALL_OPS[i], ALL_OPS[j]]));
            }
        }
    }
    // (iv) a stand-off store to which a stand-off plain-text resource was added afterwards (still to be written out): pairs with the
    // reader that writes it out
    let late_kind = storekinds.len();
    for j in 0..ALL_OPS.len() {
        jobs.push((late_kind, vec![ROp::StoreJson, ALL_OPS[j]]));
    }
    let mut rng = Rng::new(p.seed, "c20", p.shard as u64);
    for (ji, (sk, ops)) in jobs.iter().enumerate() {
        if ji % p.nshards != p.shard {
            continue;
        }
        if let Some(only) = p.only_case {
            if only != ji as u64 {
                continue;
            }
        }
        rep.cases += 1;
        rep.current_case = json!({"index": ji, "seed": p.seed, "tier": if p.thorough { "thorough" } else { "quick" }});
        let dir = format!("{}/c20-{}-{}", p.workdir, p.shard, ji);
        if *sk == late_kind {
            late_resource_job(rep, &mut rng, &dir, ops, if p.thorough { 60 } else { 12 });
            let _ = std::fs::remove_dir_all(&dir);
            continue;
        }
        let (kind, standoff, changed) = storekinds[*sk];
        USE_INCLUDE_OFF.with(|f| f.set(kind == "standoff-use-include-off"));
        FILE_URLS.with(|f| f.set(kind == "standoff-file-urls-changed"));
        // building these stores is a fixed sequence of valid calls (annotate, set_filename, to_file, from_file): it always succeeds on
        // the pinned tree, so a failure in there is reported, not swallowed
        let setup = guard(|| build_store_kind(&dir, standoff, changed, kind == "standoff-json-resource"));
        let store = match setup {
            Ok(s) => s,
            Err(pn) => {
                rep.violation(format!("C20/{}/store-cannot-be-set-up/{}", kind, normalise_msg(&pn.msg.chars().take(60).collect::<String>())), json!({"store": kind, "panic": pn.msg, "at": pn.loc}));
                USE_INCLUDE_OFF.with(|f| f.set(false));
                FILE_URLS.with(|f| f.set(false));
                let _ = std::fs::remove_dir_all(&dir);
                continue;
            }
        };
        if changed {
            for all_changed in [false, true] {
                let r = guard(|| {
                    disk_effects(rep, &dir, kind, ops, all_changed);
                    if ops[0] != ops[1] {
                        disk_effects(rep, &dir, kind, &[ops[1], ops[0]], all_changed);
                    }
                });
                if let Err(pn) = r {
                    rep.violation(format!("C20/{}/store-cannot-be-set-up/{}", kind, normalise_msg(&pn.msg.chars().take(60).collect::<String>())), json!({"store": kind, "panic": pn.msg, "at": pn.loc}));
                }
            }
        }
        USE_INCLUDE_OFF.with(|f| f.set(false));
        FILE_URLS.with(|f| f.set(false));
        let base: Vec<String> = ops.iter().map(|o| run_op(&store, *o)).collect();
        let dump_before = dump_of(&store);
        let files_before = dir_state(&dir);
        // (i) depth-first enumeration, bounded
        let mut prefix: Vec<usize> = Vec::new();
        let mut explored = 0usize;
        let mut clean = true;
        loop {
            let (got, branch, chosen, trace) = run_schedule(&store, ops, &prefix, None);
            explored += 1;
            rep.distinct(&format!("{}/{:?}/{:?}", kind, ops, trace));
            rep.count(&format!("schedules/{}/{}+{}", kind, opname(ops[0]), opname(ops[1])));
            if rep.samples.len() < 3 && trace.len() > 4 {
                rep.sample(json!({"store": kind, "threads": [opname(ops[0]), opname(ops[1])], "schedule": trace.iter().map(|(t, s)| format!("T{}:{}", t, s)).collect::<Vec<_>>(), "results_equal_sequential": got.iter().enumerate().map(|(i, g)| matches!(g, Ok(s) if *s == base[i])).collect::<Vec<_>>()}));
            }
            if clean && !judge(rep, kind, ops, &base, &got, json!({"choices": chosen, "trace": trace.iter().map(|(t, s)| format!("T{}:{}", t, s)).collect::<Vec<_>>()})) {
                clean = false;
            }
            // next schedule in depth-first order
            let mut k = chosen.len();
            let mut next: Option<Vec<usize>> = None;
            while k > 0 {
                k -= 1;
                if chosen[k] + 1 < branch[k] {
                    let mut n = chosen[..k].to_vec();
                    n.push(chosen[k] + 1);
                    next = Some(n);
                    break;
                }
            }
            match next {
                Some(n) if explored < budget_pairs => prefix = n,
                Some(_) => {
                    rep.count("dfs-budget-reached");
                    break;
                }
                None => {
                    rep.count("dfs-exhaustive");
                    break;
                }
            }
        }
        // seeded sampling of the same pair (reaches deep interleavings the bounded DFS does not)
        for _ in 0..sampled {
            let (got, _, chosen, trace) = run_schedule(&store, ops, &[], Some(&mut rng));
            rep.distinct(&format!("{}/{:?}/{:?}", kind, ops, trace));
            if clean && !judge(rep, kind, ops, &base, &got, json!({"choices": chosen, "trace": trace.iter().map(|(t, s)| format!("T{}:{}", t, s)).collect::<Vec<_>>()})) {
                clean = false;
            }
        }
        // three readers, sampled
        for _ in 0..sampled / 3 {
            let third = *rng.pick(&ALL_OPS[..]);
            let ops3 = vec![ops[0], ops[1], third];
            let base3: Vec<String> = vec![base[0].clone(), base[1].clone(), run_op(&store, third)];
            let (got, _, chosen, trace) = run_schedule(&store, &ops3, &[], Some(&mut rng));
            rep.distinct(&format!("{}/{:?}/{:?}", kind, ops3, trace));
            if clean && !judge(rep, kind, &ops3, &base3, &got, json!({"choices": chosen, "trace": trace.iter().map(|(t, s)| format!("T{}:{}", t, s)).collect::<Vec<_>>()})) {
                clean = false;
            }
        }
        // (ii) free-running stress
        MODE.store(2, Ordering::SeqCst);
        STRESS_SEED.store(p.seed.wrapping_mul(0x9e3779b97f4a7c15) ^ ji as u64, Ordering::Relaxed);
        let nthreads = 4 + rng.below(9);
        let rounds = stress_rounds / jobs.len().max(1) * p.nshards.max(1) + 2;
        for round in 0..rounds {
            let assign: Vec<ROp> = (0..nthreads).map(|t| if t % 2 == 0 { ops[0] } else { ops[1] }).collect();
            let basea: Vec<String> = assign.iter().map(|o| if *o == ops[0] { base[0].clone() } else { base[1].clone() }).collect();
            let results: Vec<Result<String, String>> = std::thread::scope(|scope| {
                let hs: Vec<_> = assign.iter().map(|op| { let op = *op; let store = &store; scope.spawn(move || std::panic::catch_unwind(std::panic::AssertUnwindSafe(|| run_op(store, op))).map_err(|_| "panic".to_string())) }).collect();
                hs.into_iter().map(|h| h.join().unwrap_or(Err("join".into()))).collect()
            });
            rep.count("stress-rounds");
            if clean && !judge(rep, kind, &assign, &basea, &results, json!({"stress_round": round, "threads": nthreads})) {
                clean = false;
            }
        }
        MODE.store(0, Ordering::SeqCst);
        // afterwards: same answers alone, same store
        rep.eval();
        let after: Vec<String> = ops.iter().map(|o| run_op(&store, *o)).collect();
        if after != base {
            rep.violation(format!("C20/{}/answers-alone-differ-after-concurrent-phase/{}+{}", kind, opname(ops[0]), opname(ops[1])), json!({"store": kind, "before": base.iter().map(|s| s.chars().take(300).collect::<String>()).collect::<Vec<_>>(), "after": after.iter().map(|s| s.chars().take(300).collect::<String>()).collect::<Vec<_>>()}));
        }
        if dump_of(&store) != dump_before {
            rep.violation(format!("C20/{}/store-changed/{}+{}", kind, opname(ops[0]), opname(ops[1])), json!({"store": kind}));
        }
        // readers do not write: the stand-off files are as they were
        rep.eval();
        let files_after = dir_state(&dir);
        // (a changed stand-off member is written out by the first serialisation, that is documented behaviour)
        if files_after != files_before && !changed {
            rep.violation(format!("C20/{}/readers-rewrote-stand-off-files/{}+{}", kind, opname(ops[0]), opname(ops[1])), json!({"store": kind, "before": files_before, "after": files_after}));
        }
        let _ = std::fs::remove_dir_all(&dir);
    }
    rep.extra.insert("yield_points_seen_in_stress".into(), json!(YIELDS_SEEN.load(Ordering::Relaxed)));
}


/// free-running readers for the undefined-behaviour interpreter (tiny) and the race detector (larger): the
/// instrumentation is the oracle for memory and data-race errors, the result comparison stays on
fn sanitizer_workload(p: &Params, rep: &mut Report, tiny: bool) {
    rep.rule = "free-running reader threads over one shared store for the sanitizer builds (Miri: in-memory store, 2 threads, 4 operation pairs, 1 round; ThreadSanitizer: inline and stand-off stores, 4-8 threads, all serialisation pairs plus query/parallel, 40 rounds); results compared with the sequential baseline".into();
    let pairs: Vec<(ROp, ROp)> = if tiny {
        vec![(ROp::StoreJson, ROp::ResourceToJson), (ROp::DatasetToJson, ROp::ResourceInherentJson), (ROp::Query, ROp::Parallel), (ROp::RelatedText, ROp::QueryResultJson)]
    } else {
        let mut v = Vec::new();
        for i in 0..ALL_OPS.len() {
            for j in i..ALL_OPS.len() {
                v.push((ALL_OPS[i], ALL_OPS[j]));
            }
        }
        v
    };
    let kinds: Vec<(&str, bool, bool)> = if tiny { vec![("inline", false, false)] } else { vec![("inline", false, false), ("standoff-unchanged", true, false), ("standoff-changed", true, true)] };
    let _ = sched(); // installs the hook (pass-through / stress mode)
    for (kind, standoff, changed) in kinds {
        let dir = format!("{}/c20-san-{}", p.workdir, kind);
        let store = build_store(&dir, standoff, changed);
        for (a, b) in &pairs {
            rep.cases += 1;
            let base = [run_op(&store, *a), run_op(&store, *b)];
            MODE.store(if tiny { 0 } else { 2 }, Ordering::SeqCst);
            let rounds = if tiny { 1 } else { 40 };
            let nthreads = if tiny { 2 } else { 4 + (rep.cases as usize % 5) };
            for _ in 0..rounds {
                let results: Vec<(usize, Result<String, String>)> = std::thread::scope(|scope| {
                    let hs: Vec<_> = (0..nthreads).map(|t| { let op = if t % 2 == 0 { *a } else { *b }; let store = &store; (t % 2, scope.spawn(move || std::panic::catch_unwind(std::panic::AssertUnwindSafe(|| run_op(store, op))).map_err(|_| "panic".to_string()))) }).collect();
                    hs.into_iter().map(|(w, h)| (w, h.join().unwrap_or(Err("join".into())))).collect()
                });
                rep.eval();
                rep.distinct(&format!("{}/{:?}/{:?}", kind, a, b));
                for (w, r) in results {
                    if !matches!(&r, Ok(s) if *s == base[w]) {
                        let toggler = matches!(a, ROp::ResourceToJson | ROp::DatasetToJson | ROp::ResourceToJsonFile) || matches!(b, ROp::ResourceToJson | ROp::DatasetToJson | ROp::ResourceToJsonFile);
                        if toggler {
                            rep.violation("C20/explained:resource-or-dataset-serialisation-toggles-the-mode-cell-shared-by-all-config-clones".to_string(), json!({"store": kind, "ops": [opname(*a), opname(*b)], "sanitizer_build": true}));
                        } else {
                            rep.violation(format!("C20/{}/sanitizer-build/{}+{}/differs", kind, opname(*a), opname(*b)), json!({"store": kind, "alone": base[w].chars().take(400).collect::<String>(), "concurrent": r.unwrap_or_else(|e| e).chars().take(400).collect::<String>()}));
                        }
                        break;
                    }
                }
            }
            MODE.store(0, Ordering::SeqCst);
        }
        let _ = std::fs::remove_dir_all(&dir);
    }
}
