//! C19 — loading untrusted serialisations never panics, aborts or hangs.
//! The loaders run in a child process with RLIMIT_AS / RLIMIT_CPU so that an allocation sized by a number in
//! the input, or a loop that does not end, is an observation of the parent (signal / exit status attributed
//! to one input), not the end of the monitor. In the child every input runs under catch_unwind and every store
//! that is returned is put through the C01-C03 self-consistency checker over the hooked dump.

use crate::gen::GenCfg;
use crate::hist::*;
use crate::obs;
use crate::util::*;
use serde_json::{json, Value};
use stam::*;
use std::collections::BTreeMap;
use std::io::{BufRead, Write};

#[derive(Debug, Clone)]
struct Input {
    kind: String,
    /// how the input was derived (for signatures)
    mutation: String,
    /// file name -> content (hex for binary), or {"text": ..} for string parsers
    files: BTreeMap<String, String>,
    main: String,
}

impl Input {
    fn to_json(&self) -> Value {
        json!({"kind": self.kind, "mutation": self.mutation, "files": self.files, "main": self.main})
    }
    fn from_json(v: &Value) -> Input {
        Input {
            kind: v["kind"].as_str().unwrap_or("").to_string(),
            mutation: v["mutation"].as_str().unwrap_or("").to_string(),
            files: v["files"].as_object().map(|m| m.iter().map(|(k, v)| (k.clone(), v.as_str().unwrap_or("").to_string())).collect()).unwrap_or_default(),
            main: v["main"].as_str().unwrap_or("").to_string(),
        }
    }
}

fn hex(b: &[u8]) -> String {
    b.iter().map(|x| format!("{:02x}", x)).collect()
}

fn unhex(s: &str) -> Vec<u8> {
    (0..s.len() / 2).filter_map(|i| u8::from_str_radix(&s[2 * i..2 * i + 2], 16).ok()).collect()
}

// ---------------------------------------------------------------------------------------------
// child

fn consistent(store: &AnnotationStore) -> Result<(), String> {
    #[cfg(feature = "dump")]
    {
        let findings = crate::dumpcheck::check(&store.verif_dump(), None);
        if let Some(f) = findings.first() {
            return Err(format!("dump:{}", f.0));
        }
    }
    // the store can be observed and written without panic
    obs::observe(store, true, true).map_err(|p| format!("observe panics: {}", p.class()))?;
    // (an error while writing is not an inconsistency of the store: e.g. a member with an empty stand-off file name)
    let _ = guard(|| store.to_json_string(&Config::default().with_use_include(false))).map_err(|p| format!("to_json_string panics: {}", p.class()))?;
    Ok(())
}

fn run_input(inp: &Input, dir: &str) -> String {
    let _ = std::fs::remove_dir_all(dir);
    std::fs::create_dir_all(dir).expect("child dir");
    for (name, content) in &inp.files {
        let path = format!("{}/{}", dir, name);
        if name.ends_with(".cbor") {
            std::fs::write(&path, unhex(content)).expect("write");
        } else {
            std::fs::write(&path, content).expect("write");
        }
    }
    let main = format!("{}/{}", dir, inp.main);
    let cfg = || Config::default().with_debug(false).with_workdir(dir.to_string());
    let r: Result<Result<Option<AnnotationStore>, String>, Panic> = match inp.kind.as_str() {
        "json-store" => {
            let text = inp.files.get(&inp.main).cloned().unwrap_or_default();
            guard(move || AnnotationStore::from_str(&text, Config::default().with_debug(false)).map(Some).map_err(|e| e.to_string()))
        }
        "json-store-file" | "csv-store" | "cbor-store" => guard(|| AnnotationStore::from_file(&main, cfg()).map(Some).map_err(|e| e.to_string())),
        "annotation-json" => {
            let text = inp.files.get(&inp.main).cloned().unwrap_or_default();
            guard(move || AnnotationBuilder::from_json_str(&text).map(|_| None).map_err(|e| e.to_string()))
        }
        "annotate-from-file" => guard(|| {
            let mut store = AnnotationStore::new(Config::default().with_debug(false)).with_id("base");
            store.add_resource(TextResourceBuilder::new().with_id("r").with_text("hello wörld, 日本")).map_err(|e| e.to_string())?;
            store.annotate(AnnotationBuilder::new().with_id("a0").with_target(SelectorBuilder::textselector("r", Offset::simple(0, 5))).with_data("s", "k", "v")).map_err(|e| e.to_string())?;
            store.annotate_from_file(&main).map_err(|e| e.to_string())?;
            Ok(Some(store))
        }),
        "dataset-file" => guard(|| AnnotationDataSet::from_file(&main, cfg()).map(|_| None).map_err(|e| e.to_string())),
        "cursor" => {
            let t = inp.main.clone();
            guard(move || Cursor::try_from(t.as_str()).map(|_| None).map_err(|e| e.to_string()))
        }
        "type" => {
            let t = inp.main.clone();
            guard(move || Type::try_from(t.as_str()).map(|_| None).map_err(|e| e.to_string()))
        }
        "selectorkind" => {
            let t = inp.main.clone();
            guard(move || SelectorKind::try_from(t.as_str()).map(|_| None).map_err(|e| e.to_string()))
        }
        "dataformat" => {
            let t = inp.main.clone();
            guard(move || DataFormat::try_from(t.as_str()).map(|_| None).map_err(|e| e.to_string()))
        }
        other => Ok(Err(format!("unknown kind {}", other))),
    };
    let out = match r {
        Err(p) => format!("panic\t{}", p.class()),
        Ok(Err(e)) => format!("err\t{}", normalise_msg(&e.chars().take(50).collect::<String>())),
        Ok(Ok(None)) => "ok\t".to_string(),
        Ok(Ok(Some(store))) => match guard(|| consistent(&store)) {
            Ok(Ok(())) => "ok\tstore".to_string(),
            Ok(Err(why)) => format!("inconsistent\t{}", if why.starts_with("dump:") { why.clone() } else { normalise_msg(&why) }),
            Err(p) => format!("inconsistent\tchecker-panicked:{}", p.class()),
        },
    };
    let _ = std::fs::remove_dir_all(dir);
    out
}

/// child entry: `monitor C19CHILD --variant <batchfile> --workdir <dir>`
pub fn child(p: &Params) {
    let batch = p.variant.clone().expect("batch file");
    unsafe {
        // address space: an allocation sized by a number in the input must fail here, not take the machine down
        let lim = libc::rlimit { rlim_cur: 3 << 30, rlim_max: 3 << 30 };
        libc::setrlimit(libc::RLIMIT_AS, &lim);
        let cpu = libc::rlimit { rlim_cur: 30, rlim_max: 32 };
        libc::setrlimit(libc::RLIMIT_CPU, &cpu);
        let core = libc::rlimit { rlim_cur: 0, rlim_max: 0 };
        libc::setrlimit(libc::RLIMIT_CORE, &core);
    }
    let text = std::fs::read_to_string(&batch).expect("batch");
    let inputs: Vec<Value> = serde_json::from_str(&text).expect("batch json");
    let stdout = std::io::stdout();
    for (i, v) in inputs.iter().enumerate() {
        let inp = Input::from_json(v);
        {
            let mut o = stdout.lock();
            writeln!(o, "START\t{}", i).unwrap();
            o.flush().unwrap();
        }
        // CPU time of this thread, not wall clock: a loaded machine must not turn into a verdict
        let cpu_ms = || -> u128 {
            let mut ts = libc::timespec { tv_sec: 0, tv_nsec: 0 };
            unsafe {
                libc::clock_gettime(libc::CLOCK_THREAD_CPUTIME_ID, &mut ts);
            }
            ts.tv_sec as u128 * 1000 + ts.tv_nsec as u128 / 1_000_000
        };
        let started = cpu_ms();
        let out = run_input(&inp, &format!("{}/in", p.workdir));
        let mut o = stdout.lock();
        writeln!(o, "DONE\t{}\t{}\t{}", i, cpu_ms() - started, out).unwrap();
        o.flush().unwrap();
    }
}

// ---------------------------------------------------------------------------------------------
// parent: input generation

const EXTREME: [&str; 14] = ["0", "-1", "-0", "99999999999", "18446744073709551615", "18446744073709551616", "-9223372036854775808", "9223372036854775807", "1e308", "1.5", "-99999999999999999999999", "null", "true", "\"5\""];
const TEMPIDS: [&str; 28] = ["\"!D0\"", "\"!D1\"", "\"!D2\"", "\"!D3\"", "\"!A1\"", "\"!A2\"", "\"!A3\"", "\"!K0\"", "\"!K1\"", "\"!R0\"", "\"!R1\"", "\"!S0\"", "\"!A0\"", "\"!A99999999999\"", "\"!D99999999999\"", "\"!R7\"", "\"!A-1\"", "\"!A18446744073709551615\"", "\"!K3\"", "\"!\"", "\"!É1\"", "\"!Ω2\"", "\"!😀0\"", "\"!A\"", "\"!AÉ\"", "\"!A1É\"", "\"!é\"", "\"!!A1\""];
const TYPES: [&str; 13] = ["InternalRangedSelector", "TextSelector", "AnnotationSelector", "ResourceSelector", "DataSetSelector", "DataKeySelector", "AnnotationDataSelector", "MultiSelector", "CompositeSelector", "DirectionalSelector", "Annotation", "AnnotationData", "BeginAlignedCursor"];

/// line based edits of a pretty-printed JSON document (keeps the order of fields, which matters to the reader)
/// A new annotation whose target is a complex selector made of sub-selectors that occur elsewhere in the (valid) serialisation:
/// every combination of selector kinds under Multi / Composite / Directional, each member valid on its own.
fn graft_complex(rng: &mut Rng, text: &str) -> Option<(String, String)> {
    const KINDS: [&str; 6] = ["TextSelector", "ResourceSelector", "AnnotationSelector", "DataSetSelector", "DataKeySelector", "AnnotationDataSelector"];
    let bytes = text.as_bytes();
    let mut snippets: Vec<(&str, String)> = Vec::new();
    for kind in KINDS {
        let pat = format!("\"@type\": \"{}\"", kind);
        let mut from = 0;
        while let Some(p) = text[from..].find(&pat) {
            let at = from + p;
            from = at + pat.len();
            let Some(open) = text[..at].rfind('{') else { continue };
            // matching brace (strings may hold braces: skip over them)
            let (mut depth, mut i, mut in_str, mut esc) = (0i32, open, false, false);
            let mut close = None;
            while i < bytes.len() {
                let c = bytes[i];
                if in_str {
                    if esc {
                        esc = false;
                    } else if c == b'\\' {
                        esc = true;
                    } else if c == b'"' {
                        in_str = false;
                    }
                } else if c == b'"' {
                    in_str = true;
                } else if c == b'{' {
                    depth += 1;
                } else if c == b'}' {
                    depth -= 1;
                    if depth == 0 {
                        close = Some(i);
                        break;
                    }
                }
                i += 1;
            }
            if let Some(c) = close {
                let snip = text[open..=c].to_string();
                if !snippets.iter().any(|(_, s)| *s == snip) {
                    snippets.push((kind, snip));
                }
            }
        }
    }
    if snippets.len() < 2 {
        return None;
    }
    rng.shuffle(&mut snippets);
    // key and data selectors first when there are any: they are the rare members
    snippets.sort_by_key(|(k, _)| if *k == "DataKeySelector" || *k == "AnnotationDataSelector" { 0 } else { 1 });
    let n = 2 + rng.below(2.min(snippets.len() - 1));
    let mut members: Vec<(&str, String)> = snippets.into_iter().take(n).collect();
    if rng.chance(1, 2) {
        members.reverse();
    }
    let complex = *rng.pick(&["MultiSelector", "CompositeSelector", "DirectionalSelector"]);
    // one time in four the members are themselves wrapped in complex selectors (nesting is documented as refused)
    let nested = rng.chance(1, 4);
    if nested {
        let wrap = |rng: &mut Rng, inner: &str| -> String {
            format!("{{\n \"@type\": \"{}\",\n \"selectors\": [\n{}\n ]\n }}", rng.pick(&["MultiSelector", "CompositeSelector", "DirectionalSelector"]), inner)
        };
        let all: Vec<String> = members.iter().map(|(_, s)| s.clone()).collect();
        let first = wrap(rng, &all[..1].join(",\n"));
        let rest = if rng.chance(1, 2) { wrap(rng, &all[1..].join(",\n")) } else { all[1..].join(",\n") };
        members = vec![("nested", first), ("nested", rest)];
    }
    let ann = format!(
        "{{\n \"@type\": \"Annotation\",\n \"@id\": \"grafted\",\n \"target\": {{\n \"@type\": \"{}\",\n \"selectors\": [\n{}\n ]\n }},\n \"data\": []\n}}",
        complex,
        members.iter().map(|(_, s)| s.clone()).collect::<Vec<_>>().join(",\n")
    );
    // the annotations array is the last field of a store
    let end = text.rfind(']')?;
    let before = text[..end].trim_end();
    let sep = if before.ends_with('[') { "" } else { "," };
    let out = format!("{}{}\n{}\n{}", before, sep, ann, &text[end..]);
    let mut kinds: Vec<&str> = members.iter().map(|(k, _)| *k).collect();
    kinds.sort();
    Some((out, format!("graft-complex/{}[{}]", complex, kinds.join("+"))))
}

/// A data *reference* inside an annotation (`{"@type": "AnnotationData", "@id": .., "set": ..}`) becomes an inline *definition*
/// (key and value given), under an id that is absent, fresh, already taken, or a temporary id of a live or of a vacated slot.
fn inline_data(rng: &mut Rng, text: &str) -> Option<(String, String)> {
    let mut lines: Vec<String> = text.lines().map(|s| s.to_string()).collect();
    let refs: Vec<usize> = (1..lines.len()).filter(|k| lines[*k].trim_start().starts_with("\"set\":") && lines[*k - 1].trim_start().starts_with("\"@id\":")).collect();
    let keys: Vec<String> = (1..lines.len())
        .filter(|k| lines[*k - 1].contains("\"@type\": \"DataKey\"") && lines[*k].trim_start().starts_with("\"@id\":"))
        .filter_map(|k| lines[k].split('"').nth(3).map(|x| x.to_string()))
        .collect();
    if refs.is_empty() || keys.is_empty() {
        return None;
    }
    let k = *rng.pick(&refs);
    let indent: String = lines[k].chars().take_while(|c| c.is_whitespace()).collect();
    let present: Vec<usize> = text.match_indices("\"!D").filter_map(|(i, _)| text[i + 3..].split('"').next().and_then(|n| n.parse().ok())).filter(|n: &usize| *n < 256).collect();
    let max = present.iter().max().copied().unwrap_or(0);
    let missing: Vec<usize> = (0..max).filter(|n| !present.contains(n)).collect();
    let (name, id): (&str, Option<String>) = match rng.below(6) {
        0 => ("no-id", None),
        1 => ("fresh-id", Some("inline-fresh".into())),
        2 if !missing.is_empty() => ("temp-id-of-vacated-slot", Some(format!("!D{}", rng.pick(&missing)))),
        3 if !present.is_empty() => ("temp-id-of-live-item", Some(format!("!D{}", rng.pick(&present)))),
        4 => ("temp-id-beyond", Some(format!("!D{}", max + 1 + rng.below(3)))),
        _ => ("same-id", lines[k - 1].split('"').nth(3).map(|x| x.to_string())),
    };
    match id {
        Some(id) => lines[k - 1] = format!("{}\"@id\": {},", indent, serde_json::to_string(&id).ok()?),
        None => {
            lines.remove(k - 1);
        }
    }
    let k = if name == "no-id" { k - 1 } else { k };
    let set_line = lines[k].trim_end().trim_end_matches(',').to_string();
    lines[k] = format!("{},", set_line);
    lines.insert(k + 1, format!("{}\"key\": {},", indent, serde_json::to_string(rng.pick(&keys)).ok()?));
    lines.insert(k + 2, format!("{}\"value\": {{ \"@type\": \"String\", \"value\": \"inline\" }}", indent));
    Some((lines.join("\n"), format!("inline-data/{}", name)))
}

/// a consistent renaming of one public identifier (every occurrence of the quoted string) to a long one of multi-byte
/// characters: the document stays as valid as it was, but few byte positions inside it are character boundaries
fn rename_nonascii(rng: &mut Rng, text: &str) -> Option<String> {
    let ids: Vec<String> = text
        .lines()
        .filter_map(|l| ["@id", "resource", "annotation", "set", "key", "dataset"].iter().find_map(|f| l.trim().strip_prefix(&format!("\"{}\": \"", f))))
        .map(|r| r.trim_end_matches(',').trim_end_matches('"').to_string())
        .filter(|s| !s.is_empty() && !s.contains('\\') && !s.starts_with('!'))
        .collect();
    if ids.is_empty() {
        return None;
    }
    let old = ids[rng.below(ids.len())].clone();
    let unit = *rng.pick(&["\u{e9}", "\u{65e5}", "\u{1d11e}", "\u{65e5}\u{e9}x"]);
    let new = format!("{}{}", "x".repeat(rng.below(4)), unit.repeat(rng.range(8, 48) as usize));
    Some(text.replace(&format!("\"{}\"", old), &format!("\"{}\"", new)))
}

fn mutate_json(rng: &mut Rng, text: &str) -> (String, String) {
    let mut lines: Vec<String> = text.lines().map(|s| s.to_string()).collect();
    if lines.is_empty() {
        return (text.to_string(), "none".into());
    }
    let i = rng.below(lines.len());
    let strings: Vec<String> = text.split('"').skip(1).step_by(2).filter(|s| !s.is_empty() && s.len() < 40).map(|s| s.to_string()).collect();
    let name = match rng.below(12) {
        0 => {
            lines.remove(i);
            "delete-line"
        }
        1 => {
            let l = lines[i].clone();
            lines.insert(i, l);
            "duplicate-line"
        }
        2 => {
            let j = rng.below(lines.len());
            lines.swap(i, j);
            "swap-lines"
        }
        3 | 4 => {
            // replace a number by an extreme one
            let cands: Vec<usize> = lines.iter().enumerate().filter(|(_, l)| l.trim_end_matches(',').chars().rev().next().map(|c| c.is_ascii_digit()).unwrap_or(false) && l.contains(':')).map(|(k, _)| k).collect();
            if cands.is_empty() {
                return (text.to_string(), "none".into());
            }
            let k = cands[rng.below(cands.len())];
            let Some((head, tail)) = lines[k].split_once(':') else { return (text.to_string(), "none".into()) };
            let (head, tail) = (head.to_string(), tail.to_string());
            let comma = if lines[k].trim_end().ends_with(',') { "," } else { "" };
            if rng.chance(1, 2) {
                // a number close to the valid one: off by a little, or the other sign
                if let Ok(n) = tail.trim().trim_end_matches(',').parse::<i64>() {
                    let m = match rng.below(4) {
                        0 => n.wrapping_neg(),
                        1 => n.wrapping_add(rng.range(1, 12)),
                        2 => n.wrapping_sub(rng.range(1, 12)),
                        _ => n.wrapping_abs().wrapping_add(rng.range(1, 12)).wrapping_neg(),
                    };
                    lines[k] = format!("{}: {}{}", head, m, comma);
                    return (lines.join("\n"), "nudge-number".to_string());
                }
            }
            lines[k] = format!("{}: {}{}", head, rng.pick(&EXTREME[..]), comma);
            "extreme-number"
        }
        5 => {
            // an id or reference becomes a temporary id
            let cands: Vec<usize> = lines.iter().enumerate().filter(|(_, l)| l.contains("\"@id\"") || l.contains("\"annotation\"") || l.contains("\"resource\"") || l.contains("\"key\"") || l.contains("\"set\"") || l.contains("\"dataset\"")).map(|(k, _)| k).collect();
            if cands.is_empty() {
                return (text.to_string(), "none".into());
            }
            let k = cands[rng.below(cands.len())];
            let Some((head, _)) = lines[k].split_once(':') else { return (text.to_string(), "none".into()) };
            let head = head.to_string();
            let comma = if lines[k].trim_end().ends_with(',') { "," } else { "" };
            // half of the time a temporary id that is NOT in the document but lies below one that is: after removals that is the
            // number of a vacated slot
            let mut gap: Option<String> = None;
            if rng.chance(1, 2) {
                let letter = *rng.pick(&['D', 'A', 'K']);
                let pat = format!("\"!{}", letter);
                let present: Vec<usize> = text.match_indices(&pat).filter_map(|(i, _)| text[i + pat.len()..].split('"').next().and_then(|n| n.parse().ok())).filter(|n: &usize| *n < 256).collect();
                if let Some(max) = present.iter().max() {
                    let missing: Vec<usize> = (0..*max).filter(|n| !present.contains(n)).collect();
                    if !missing.is_empty() {
                        gap = Some(format!("\"!{}{}\"", letter, rng.pick(&missing)));
                    }
                }
            }
            let is_gap = gap.is_some();
            lines[k] = format!("{}: {}{}", head, gap.unwrap_or_else(|| rng.pick(&TEMPIDS[..]).to_string()), comma);
            if is_gap { "temporary-id-of-a-vacated-slot" } else { "temporary-id" }
        }
        6 => {
            // swap a @type
            let cands: Vec<usize> = lines.iter().enumerate().filter(|(_, l)| l.contains("\"@type\"")).map(|(k, _)| k).collect();
            if cands.is_empty() {
                return (text.to_string(), "none".into());
            }
            let k = cands[rng.below(cands.len())];
            let Some((head, _)) = lines[k].split_once(':') else { return (text.to_string(), "none".into()) };
            let head = head.to_string();
            let comma = if lines[k].trim_end().ends_with(',') { "," } else { "" };
            lines[k] = format!("{}: \"{}\"{}", head, rng.pick(&TYPES[..]), comma);
            "retype"
        }
        7 => {
            // a reference points at another string of the document (dangling, cyclic, wrong kind)
            let cands: Vec<usize> = lines.iter().enumerate().filter(|(_, l)| l.contains("\"annotation\"") || l.contains("\"resource\"") || l.contains("\"key\"") || l.contains("\"set\"") || l.contains("\"dataset\"") || l.contains("\"@id\"")).map(|(k, _)| k).collect();
            if cands.is_empty() || strings.is_empty() {
                return (text.to_string(), "none".into());
            }
            let k = cands[rng.below(cands.len())];
            let Some((head, _)) = lines[k].split_once(':') else { return (text.to_string(), "none".into()) };
            let head = head.to_string();
            let comma = if lines[k].trim_end().ends_with(',') { "," } else { "" };
            lines[k] = format!("{}: \"{}\"{}", head, strings[rng.below(strings.len())], comma);
            "rewire-reference"
        }
        8 => {
            // a value gets another JSON type
            if !lines[i].contains(':') {
                return (text.to_string(), "none".into());
            }
            let Some((head, _)) = lines[i].split_once(':') else { return (text.to_string(), "none".into()) };
            let head = head.to_string();
            let comma = if lines[i].trim_end().ends_with(',') { "," } else { "" };
            lines[i] = format!("{}: {}{}", head, rng.pick(&["null", "[]", "{}", "\"\"", "[[]]", "0", "{\"@type\": \"TextSelector\"}"]), comma);
            "retype-value"
        }
        9 => {
            let cut = rng.below(text.len().max(1));
            let mut c = cut;
            while !text.is_char_boundary(c) {
                c -= 1;
            }
            return (text[..c].to_string(), "truncate".into());
        }
        10 => {
            // two edits
            let (a, _) = mutate_json(rng, text);
            let (b, m) = mutate_json(rng, &a);
            return (b, format!("double+{}", m));
        }
        _ => {
            lines[i] = lines[i].replace("Begin", "End");
            "flip-alignment"
        }
    };
    (lines.join("\n"), name.to_string())
}

fn mutate_csv(rng: &mut Rng, text: &str) -> (String, String) {
    let mut rows: Vec<Vec<String>> = text.lines().map(|l| l.split(',').map(|c| c.to_string()).collect()).collect();
    if rows.len() < 2 {
        return (text.to_string(), "none".into());
    }
    let r = 1 + rng.below(rows.len() - 1);
    let c = rng.below(rows[r].len().max(1));
    // half of the time aim at a cell that holds a ';'-separated list (complex selectors), when there is one
    let listcells: Vec<(usize, usize)> = rows.iter().enumerate().skip(1).flat_map(|(i, row)| row.iter().enumerate().filter(|(_, c)| c.contains(';')).map(move |(j, _)| (i, j))).collect();
    let (r, c) = if !listcells.is_empty() && rng.chance(1, 2) { *rng.pick(&listcells) } else { (r, c) };
    let name = match rng.below(13) {
        11 | 12 => {
            // a whole column: dropped with its header (the older layout of the file had fewer columns) or blank in every row;
            // aimed at the columns that were added later, when the header has them
            let later: Vec<usize> = rows[0].iter().enumerate().filter(|(_, h)| ["TargetKey", "TargetData", "TargetDataSet", "SubStore"].contains(&h.as_str())).map(|(i, _)| i).collect();
            let col = if !later.is_empty() && rng.chance(2, 3) { *rng.pick(&later) } else { rng.below(rows[0].len().max(1)) };
            if rng.chance(1, 2) {
                for row in rows.iter_mut() {
                    if col < row.len() {
                        row.remove(col);
                    }
                }
                "column-dropped"
            } else {
                for row in rows.iter_mut().skip(1) {
                    if col < row.len() {
                        row[col] = String::new();
                    }
                }
                "column-blanked"
            }
        }
        8 if rows[r][c].contains(';') => {
            let mut parts: Vec<String> = rows[r][c].split(';').map(|x| x.to_string()).collect();
            let k = rng.below(parts.len());
            parts.remove(k);
            rows[r][c] = parts.join(";");
            "list-element-dropped"
        }
        9 if rows[r][c].contains(';') => {
            let mut parts: Vec<String> = rows[r][c].split(';').map(|x| x.to_string()).collect();
            let k = rng.below(parts.len());
            parts[k] = String::new();
            rows[r][c] = parts.join(";");
            "list-element-blanked"
        }
        10 if rows[r][c].contains(';') => {
            let parts: Vec<String> = rows[r][c].split(';').map(|x| x.to_string()).collect();
            let extra = rng.pick(&parts).clone();
            rows[r][c] = format!("{};{}", rows[r][c], extra);
            "list-element-added"
        }
        0 | 8 | 9 | 10 => {
            rows[r][c] = String::new();
            "empty-cell"
        }
        1 => {
            rows[r].push("surplus".into());
            "surplus-cell"
        }
        2 => {
            rows[r].pop();
            "missing-cell"
        }
        3 => {
            rows[r][c] = (*rng.pick(&["-0", "-99999999999999", "99999999999999", "1;2;3;4", "x", "-", "--1", "18446744073709551616"])).to_string();
            "bad-number"
        }
        4 => {
            // aimed at the column that holds selector kinds, when the header names one
            let c = rows[0].iter().position(|h| h == "SelectorType").filter(|k| *k < rows[r].len()).unwrap_or(c);
            rows[r][c] = (*rng.pick(&["TextSelector;TextSelector", "MultiSelector", "CompositeSelector;TextSelector", "DataKeySelector", "AnnotationDataSelector", "RangedTextSelector", "Nonsense", "DirectionalSelector;AnnotationSelector;TextSelector", "InternalRangedSelector", "internalrangedselector", "InternalRangedSelector;TextSelector", "CompositeSelector;InternalRangedSelector", "textselector", "Annotation"])).to_string();
            "selector-kind-list"
        }
        5 => {
            rows[r][c] = format!("{};{}", rows[r][c], rows[r][c]);
            "doubled-list"
        }
        6 => {
            let other = rng.below(rows.len());
            let v = rows[other].get(c).cloned().unwrap_or_default();
            rows[r][c] = v;
            "cell-from-other-row"
        }
        _ => {
            rows.swap(0, r);
            "header-swapped"
        }
    };
    (rows.iter().map(|r| r.join(",")).collect::<Vec<_>>().join("\n") + "\n", name.to_string())
}

fn mutate_bytes(rng: &mut Rng, b: &[u8]) -> (Vec<u8>, String) {
    if b.is_empty() {
        return (Vec::new(), "none".into());
    }
    match rng.below(4) {
        0 => {
            let n = rng.below(b.len().min(512) + 1);
            (b[..n].to_vec(), "truncate-head".into())
        }
        1 => {
            let n = rng.below(b.len());
            (b[..n].to_vec(), "truncate".into())
        }
        2 => {
            let mut v = b.to_vec();
            for _ in 0..rng.range(1, 4) {
                let i = rng.below(v.len());
                v[i] ^= 1 << rng.below(8);
            }
            (v, "bit-flips".into())
        }
        _ => {
            let mut v = b.to_vec();
            let i = rng.below(v.len());
            // cbor: turn a small integer / length into a huge one
            v[i] = *rng.pick(&[0x1bu8, 0x3b, 0x5b, 0x7b, 0x9b, 0xbb, 0xff, 0x9f]);
            (v, "length-byte".into())
        }
    }
}

fn read_dir_files(dir: &str) -> BTreeMap<String, Vec<u8>> {
    let mut out = BTreeMap::new();
    if let Ok(rd) = std::fs::read_dir(dir) {
        for e in rd.flatten() {
            if e.path().is_file() {
                if let (Some(name), Ok(content)) = (e.file_name().to_str(), std::fs::read(e.path())) {
                    out.insert(name.to_string(), content);
                }
            }
        }
    }
    out
}

/// store files that @include each other: a cycle, a self-include, a diamond, a missing file - loaded from a directory that is
/// not the current one, so names as written and names as resolved differ
fn include_graphs(rng: &mut Rng, out: &mut Vec<Input>) {
    let doc = |id: &str, includes: &[&str], array: bool| -> String {
        let inc = if includes.is_empty() {
            String::new()
        } else if includes.len() == 1 && !array {
            format!("\"@include\": \"{}\",", includes[0])
        } else {
            format!("\"@include\": [{}],", includes.iter().map(|i| format!("\"{}\"", i)).collect::<Vec<_>>().join(", "))
        };
        format!(
            "{{\n  \"@type\": \"AnnotationStore\",\n  \"@id\": \"{id}\",\n  {inc}\n  \"resources\": [ {{ \"@type\": \"TextResource\", \"@id\": \"r{id}\", \"text\": \"text of {id} é日\" }} ],\n  \"annotationsets\": [],\n  \"annotations\": [ {{ \"@type\": \"Annotation\", \"@id\": \"a{id}\", \"target\": {{ \"@type\": \"TextSelector\", \"resource\": \"r{id}\", \"offset\": {{ \"@type\": \"Offset\", \"begin\": {{ \"@type\": \"BeginAlignedCursor\", \"value\": 0 }}, \"end\": {{ \"@type\": \"BeginAlignedCursor\", \"value\": 4 }} }} }}, \"data\": [] }} ]\n}}\n"
        )
    };
    let a = "a.store.stam.json";
    let b = "b.store.stam.json";
    let c = "c.store.stam.json";
    let array = rng.chance(1, 2);
    let shapes: Vec<(&str, Vec<(&str, String)>)> = vec![
        ("include-cycle-2", vec![(a, doc("a", &[b], array)), (b, doc("b", &[a], array))]),
        ("include-self", vec![(a, doc("a", &[a], array))]),
        ("include-cycle-3", vec![(a, doc("a", &[b], array)), (b, doc("b", &[c], array)), (c, doc("c", &[a], array))]),
        ("include-diamond", vec![(a, doc("a", &[b, c], true)), (b, doc("b", &[c], array)), (c, doc("c", &[], false))]),
        ("include-twice", vec![(a, doc("a", &[b, b], true)), (b, doc("b", &[], false))]),
        ("include-missing", vec![(a, doc("a", &["nowhere.store.stam.json"], array))]),
        ("include-dot-slash", vec![(a, doc("a", &["./b.store.stam.json"], array)), (b, doc("b", &["./a.store.stam.json"], array))]),
    ];
    let (name, files) = rng.pick(&shapes).clone();
    let mut f = BTreeMap::new();
    for (n, t) in files {
        f.insert(n.to_string(), t);
    }
    out.push(Input { kind: "json-store-file".into(), mutation: name.to_string(), files: f, main: a.to_string() });
}

fn gen_inputs(p: &Params, rng: &mut Rng, k: u64, out: &mut Vec<Input>) {
    if k % 4 == 0 {
        include_graphs(rng, out);
    }
    let mut cfg = GenCfg::default();
    cfg.hostile_ids = false;
    cfg.allow_semicolon = false;
    cfg.max_anns = 8;
    cfg.removals = rng.chance(1, 3);
    // key and data selectors as members of complex selectors (their canonical order is decided by a comparator of its own)
    cfg.keydata_in_complex = rng.chance(1, 2);
    let nops = rng.range(5, 16) as usize;
    let mut h = random_history(rng, cfg, nops, 100, false);
    let per_format = if p.thorough { 14 } else { 8 };
    // STAM JSON
    if let Ok(Ok(text)) = guard(|| h.store.to_json_string(&Config::default().with_use_include(false))) {
        let mut f = BTreeMap::new();
        f.insert("s.store.stam.json".to_string(), text.clone());
        out.push(Input { kind: "json-store".into(), mutation: "valid".into(), files: f, main: "s.store.stam.json".into() });
        for k in 0..per_format {
            // every fourth: one identifier renamed to multi-byte characters first
            let renamed = if k % 4 == 3 { rename_nonascii(rng, &text) } else { None };
            let (m, name) = mutate_json(rng, renamed.as_deref().unwrap_or(&text));
            let name = if renamed.is_some() { format!("non-ascii-id+{}", name) } else { name };
            let mut f = BTreeMap::new();
            f.insert("s.store.stam.json".to_string(), m);
            out.push(Input { kind: if rng.chance(1, 6) { "json-store-file".into() } else { "json-store".into() }, mutation: name, files: f, main: "s.store.stam.json".into() });
        }
        for _ in 0..2 {
            if let Some((m, name)) = inline_data(rng, &text) {
                let mut f = BTreeMap::new();
                f.insert("s.store.stam.json".to_string(), m);
                out.push(Input { kind: "json-store".into(), mutation: name, files: f, main: "s.store.stam.json".into() });
            }
        }
        for _ in 0..2 {
            if let Some((m, name)) = graft_complex(rng, &text) {
                let mut f = BTreeMap::new();
                f.insert("s.store.stam.json".to_string(), m);
                out.push(Input { kind: "json-store".into(), mutation: name, files: f, main: "s.store.stam.json".into() });
            }
        }
        // annotations as a file for annotate_from_file, single annotations for the builder parser, datasets
        if let Ok(doc) = serde_json::from_str::<Value>(&text) {
            if let Some(anns) = doc["annotations"].as_array() {
                if let Some(a) = anns.first() {
                    let t = serde_json::to_string_pretty(a).unwrap_or_default();
                    for k in 0..6 {
                        let renamed = if k >= 3 { rename_nonascii(rng, &t) } else { None };
                        let (m, name) = mutate_json(rng, renamed.as_deref().unwrap_or(&t));
                        let name = if renamed.is_some() { format!("non-ascii-id+{}", name) } else { name };
                        let mut f = BTreeMap::new();
                        f.insert("a.json".to_string(), m);
                        out.push(Input { kind: "annotation-json".into(), mutation: name, files: f, main: "a.json".into() });
                    }
                }
                // an annotation in the middle of the text and one relative to it, with cursors around the valid range
                let cur = |rng: &mut Rng| -> Value {
                    let v = rng.range(-13, 13);
                    if rng.chance(1, 2) { json!({"@type": "EndAlignedCursor", "value": v}) } else { json!({"@type": "BeginAlignedCursor", "value": v}) }
                };
                let (c1, c2) = (cur(rng), cur(rng));
                let list = json!([{"@type": "Annotation", "@id": "n1", "target": {"@type": "TextSelector", "resource": "r", "offset": {"@type": "Offset", "begin": {"@type": "BeginAlignedCursor", "value": 6}, "end": {"@type": "BeginAlignedCursor", "value": 11}}}, "data": [{"@type": "AnnotationData", "set": "s", "key": "k", "value": {"@type": "Int", "value": 3}}]},
                                  {"@type": "Annotation", "@id": "n2", "target": {"@type": "AnnotationSelector", "annotation": "n1", "offset": {"@type": "Offset", "begin": c1, "end": c2}}, "data": []}]);
                {
                    let mut f = BTreeMap::new();
                    f.insert("anns.json".to_string(), serde_json::to_string_pretty(&list).unwrap_or_default());
                    out.push(Input { kind: "annotate-from-file".into(), mutation: "relative-cursor-sweep".into(), files: f, main: "anns.json".into() });
                }
                let t = serde_json::to_string_pretty(&list).unwrap_or_default();
                for _ in 0..4 {
                    let (m, name) = mutate_json(rng, &t);
                    let mut f = BTreeMap::new();
                    f.insert("anns.json".to_string(), m);
                    out.push(Input { kind: "annotate-from-file".into(), mutation: name, files: f, main: "anns.json".into() });
                }
            }
            if let Some(sets) = doc["annotationsets"].as_array() {
                if let Some(s) = sets.first() {
                    let t = serde_json::to_string_pretty(s).unwrap_or_default();
                    for _ in 0..3 {
                        let (m, name) = mutate_json(rng, &t);
                        let mut f = BTreeMap::new();
                        f.insert("d.dataset.stam.json".to_string(), m);
                        out.push(Input { kind: "dataset-file".into(), mutation: name, files: f, main: "d.dataset.stam.json".into() });
                    }
                }
            }
        }
    }
    // STAM CSV and CBOR through files
    let dir = format!("{}/c19-gen-{}", p.workdir, k);
    let _ = std::fs::remove_dir_all(&dir);
    std::fs::create_dir_all(&dir).expect("gen dir");
    let csv_ok = guard(|| {
        h.store.set_filename(&format!("{}/s.store.stam.csv", dir));
        h.store.save()
    });
    if matches!(csv_ok, Ok(Ok(()))) {
        let files = read_dir_files(&dir);
        let texts: BTreeMap<String, String> = files.iter().filter_map(|(k, v)| String::from_utf8(v.clone()).ok().map(|s| (k.clone(), s))).collect();
        let csvs: Vec<String> = texts.keys().filter(|k| k.ends_with(".csv")).cloned().collect();
        if texts.contains_key("s.store.stam.csv") {
            out.push(Input { kind: "csv-store".into(), mutation: "valid".into(), files: texts.clone(), main: "s.store.stam.csv".into() });
            for _ in 0..per_format {
                let victim = &csvs[rng.below(csvs.len())];
                let (m, name) = mutate_csv(rng, &texts[victim]);
                let mut f = texts.clone();
                f.insert(victim.clone(), m);
                let which = if victim.contains(".store.") { "manifest" } else if victim.contains("annotations") { "annotations" } else { "dataset" };
                out.push(Input { kind: "csv-store".into(), mutation: format!("{}/{}", which, name), files: f, main: "s.store.stam.csv".into() });
            }
        }
    }
    let _ = std::fs::remove_dir_all(&dir);
    std::fs::create_dir_all(&dir).expect("gen dir");
    let cbor_path = format!("{}/s.store.stam.cbor", dir);
    if matches!(guard(|| h.store.to_file(&cbor_path)), Ok(Ok(()))) {
        if let Ok(bytes) = std::fs::read(&cbor_path) {
            let mut f = BTreeMap::new();
            f.insert("s.store.stam.cbor".to_string(), hex(&bytes));
            out.push(Input { kind: "cbor-store".into(), mutation: "valid".into(), files: f, main: "s.store.stam.cbor".into() });
            for _ in 0..per_format {
                let (m, name) = mutate_bytes(rng, &bytes);
                let mut f = BTreeMap::new();
                f.insert("s.store.stam.cbor".to_string(), hex(&m));
                out.push(Input { kind: "cbor-store".into(), mutation: name, files: f, main: "s.store.stam.cbor".into() });
            }
        }
    }
    let _ = std::fs::remove_dir_all(&dir);
    // string parsers
    for _ in 0..6 {
        let s = match rng.below(6) {
            0 => (*rng.pick(&EXTREME[..])).to_string(),
            1 => format!("-{}", rng.pick(&EXTREME[..])),
            2 => (*rng.pick(&["", "-", "--", "+1", "1-", "é", "\u{0}", "- 1", "0x10", "１２"])).to_string(),
            3 => (*rng.pick(&TYPES[..])).to_lowercase(),
            4 => (*rng.pick(&["json", "csv", "cbor", "JSON", "xml", "", "stam.json"])).to_string(),
            _ => (*rng.pick(&TYPES[..])).to_string(),
        };
        let kind = *rng.pick(&["cursor", "type", "selectorkind", "dataformat"]);
        out.push(Input { kind: kind.into(), mutation: "string".into(), files: BTreeMap::new(), main: s });
    }
}

// ---------------------------------------------------------------------------------------------
// parent: running batches in children

fn run_batches(p: &Params, rep: &mut Report, inputs: Vec<Input>) {
    let exe = std::env::current_exe().expect("own path");
    let mut next = 0usize;
    let mut restarts = 0;
    while next < inputs.len() {
        let batch: Vec<&Input> = inputs[next..].iter().take(200).collect();
        let batchfile = format!("{}/c19-batch-{}-{}.json", p.workdir, p.shard, next);
        std::fs::write(&batchfile, serde_json::to_string(&batch.iter().map(|i| i.to_json()).collect::<Vec<_>>()).unwrap()).expect("batch file");
        let childdir = format!("{}/c19-child-{}", p.workdir, p.shard);
        let mut child = std::process::Command::new(&exe)
            .args(["C19CHILD", "--variant", &batchfile, "--workdir", &childdir])
            .stdin(std::process::Stdio::null())
            .stdout(std::process::Stdio::piped())
            .stderr(std::process::Stdio::null())
            .spawn()
            .expect("spawn child");
        let stdout = child.stdout.take().unwrap();
        // lines arrive through a channel so that a child that neither finishes nor dies is noticed (wall clock, generous)
        let (tx, rx) = std::sync::mpsc::channel::<String>();
        std::thread::spawn(move || {
            let reader = std::io::BufReader::new(stdout);
            for line in reader.lines().flatten() {
                if tx.send(line).is_err() {
                    break;
                }
            }
        });
        let mut started: Option<usize> = None;
        let mut done = 0usize;
        let mut stalled = false;
        loop {
            let line = match rx.recv_timeout(std::time::Duration::from_secs(180)) {
                Ok(l) => l,
                Err(std::sync::mpsc::RecvTimeoutError::Disconnected) => break,
                Err(std::sync::mpsc::RecvTimeoutError::Timeout) => {
                    // wall clock: a watchdog, not a verdict (a loop that burns CPU is caught by RLIMIT_CPU instead)
                    stalled = true;
                    let _ = child.kill();
                    break;
                }
            };
            let parts: Vec<&str> = line.split('\t').collect();
            match parts.first() {
                Some(&"START") => started = parts.get(1).and_then(|x| x.parse().ok()),
                Some(&"DONE") => {
                    let i: usize = parts.get(1).and_then(|x| x.parse().ok()).unwrap_or(0);
                    let ms: u64 = parts.get(2).and_then(|x| x.parse().ok()).unwrap_or(0);
                    let outcome = parts.get(3).cloned().unwrap_or("");
                    let class = parts.get(4).cloned().unwrap_or("");
                    let inp = batch[i];
                    done = i + 1;
                    started = None;
                    rep.eval();
                    rep.count(&format!("{}/{}/{}", inp.kind, inp.mutation.split('/').last().unwrap_or(""), outcome));
                    rep.distinct(&format!("{}/{}/{}/{}", inp.kind, inp.mutation, outcome, class.chars().take(24).collect::<String>()));
                    if rep.samples.len() < 3 && inp.mutation != "valid" && inp.kind.ends_with("store") {
                        rep.sample(json!({"loader": inp.kind, "mutation": inp.mutation, "outcome": outcome, "class": class, "milliseconds": ms, "input_bytes": inp.files.values().map(|f| f.len()).sum::<usize>()}));
                    }
                    let size: usize = inp.files.values().map(|f| f.len()).sum::<usize>() + inp.main.len();
                    match outcome {
                        "panic" => rep.violation(format!("C19/{}/panic/{}", inp.kind, class), json!({"input": inp.to_json(), "panic": class})),
                        "inconsistent" => {
                            // two recorded root causes get their own signature
                            let sig = if inp.kind == "cbor-store" && class.starts_with("dump:") {
                                "C19/cbor-store/accepted-but-inconsistent/explained:cbor-decoding-trusts-the-stored-indices".to_string()
                            } else if class.starts_with("dump:") && class.ends_with("/duplicate") {
                                format!("C19/{}/accepted-but-inconsistent/explained:same-item-twice-in-one-annotation-is-indexed-twice", inp.kind)
                            } else {
                                format!("C19/{}/accepted-but-inconsistent/{}", inp.kind, class.chars().take(70).collect::<String>())
                            };
                            rep.violation(sig, json!({"input": inp.to_json(), "finding": class}))
                        }
                        _ => {}
                    }
                    // time proportional to the input: generous bound of 2 s + 1 ms per byte
                    if ms > 2000 + size as u64 / 1000 * 1000 {
                        rep.violation(format!("C19/{}/slow/{}", inp.kind, inp.mutation), json!({"input": inp.to_json(), "milliseconds": ms, "bytes": size}));
                    }
                }
                _ => {}
            }
        }
        let status = child.wait().expect("wait");
        let _ = std::fs::remove_file(&batchfile);
        let _ = std::fs::remove_dir_all(&childdir);
        if let Some(i) = started {
            // the child died while working on input i
            use std::os::unix::process::ExitStatusExt;
            let inp = batch[i];
            if stalled {
                rep.inconclusive = Some(format!("child gave no answer for 180 s of wall clock on input {} ({})", i, batch[i].mutation));
                return;
            }
            let how = { match status.signal() {
                Some(libc::SIGABRT) => "abort(allocation-failure-or-abort)".to_string(),
                Some(libc::SIGSEGV) => "segfault".to_string(),
                Some(libc::SIGXCPU) | Some(libc::SIGKILL) => "cpu-limit(does-not-terminate)".to_string(),
                Some(s) => format!("signal-{}", s),
                None => format!("exit-{}", status.code().unwrap_or(-1)),
            } };
            rep.eval();
            rep.violation(format!("C19/{}/{}/{}", inp.kind, how, inp.mutation), json!({"input": inp.to_json(), "status": format!("{:?}", status)}));
            next += i + 1;
            restarts += 1;
            if restarts > 200 {
                rep.inconclusive = Some("too many child crashes".into());
                return;
            }
        } else if done == 0 && !status.success() {
            rep.inconclusive = Some(format!("child failed before the first input: {:?}", status));
            return;
        } else {
            next += batch.len();
        }
    }
}

pub fn run(p: &Params, rep: &mut Report) {
    rep.rule = "valid STAM JSON / STAM CSV / CBOR serialisations of stores reached by seeded histories, mutated: pretty JSON edited line-wise (delete / duplicate / swap lines, extreme numbers, temporary ids with extreme numbers, @type swaps, references rewired to other strings of the document, values retyped, truncation, alignment flips, double edits), CSV cells (empty, surplus, missing, bad numbers, selector-kind lists of the wrong length, doubled lists, cells from other rows, header swapped, a whole column dropped or blanked) in manifest, annotation and dataset files, CBOR truncated at every length <= 512 and beyond, bit flips and length bytes; plus single annotations for AnnotationBuilder::from_json_str, annotation lists for annotate_from_file, datasets for AnnotationDataSet::from_file and strings for the Cursor / Type / SelectorKind / DataFormat parsers. Every input is loaded in a child process (RLIMIT_AS 3 GiB, RLIMIT_CPU 30 s per batch of 200) under catch_unwind; a returned store goes through the dump self-consistency checker, the canonical observation and JSON serialisation. distinct_nontrivial = distinct (loader, mutation, outcome, error class) observed".into();
    rep.assumptions = vec![
        "time proportional to the input is judged on the CPU time of the loading thread with a bound of 2 s + 1 ms per byte per input; 180 s of wall clock without answer makes the run inconclusive".into(),
        "a child that dies is attributed to the input it had announced (START line flushed before each input)".into(),
    ];
    let total: u64 = if p.thorough { 4000 } else { 600 };
    let mut inputs = Vec::new();
    for k in p.cases(total) {
        rep.cases += 1;
        let mut rng = Rng::new(p.seed, "c19", k);
        gen_inputs(p, &mut rng, k, &mut inputs);
        if inputs.len() >= 1000 {
            let batch = std::mem::take(&mut inputs);
            run_batches(p, rep, batch);
            if rep.inconclusive.is_some() {
                return;
            }
        }
    }
    run_batches(p, rep, inputs);
}
