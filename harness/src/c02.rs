//! C02 — removal cascades exactly and never leaves dangling references.
//! Every removal request on an existing item must succeed, remove exactly what the shadow model's cascade
//! (least fixed point over forward references) removes, touch nothing else, and leave a store that can be
//! observed, serialised and queried without error or panic.

use crate::c01::check_state;
use crate::gen::{Gen, GenCfg};
use crate::hist::*;
use crate::model::*;
use crate::util::*;
use serde_json::json;
use stam::*;

fn is_removal(op: &Op) -> bool {
    matches!(
        op,
        Op::RemoveAnnotation(_) | Op::RemoveData { .. } | Op::RemoveKey { .. } | Op::RemoveResource(_) | Op::RemoveDataset(_) | Op::QueryDelete(..)
    )
}

pub fn usable(h: &History, rep: &mut Report, after: &str) {
    // serialising and querying the store cannot fail or panic
    rep.eval();
    let cfg = Config::default().with_use_include(false);
    match guard(|| h.store.to_json_string(&cfg)) {
        Ok(Ok(_)) => {}
        Ok(Err(e)) => rep.violation(
            format!("C02/serialise/error/after:{}", after),
            json!({"error": format!("{}", e), "history": h.replay_json()}),
        ),
        Err(p) => rep.violation(
            format!("C02/serialise/panic/{}/after:{}", p.class(), after),
            json!({"panic": p.msg, "at": p.loc, "history": h.replay_json()}),
        ),
    }
    rep.eval();
    let before = stam::verif::note_count("query_error");
    let r = guard(|| -> Result<usize, StamError> {
        let query: Query = "SELECT ANNOTATION ?a".try_into()?;
        let mut n = 0;
        for row in h.store.query(query)? {
            for item in row.iter() {
                if let QueryResultItem::Annotation(a) = item {
                    // touch target and data of every row
                    let _ = a.textselections().count() + a.data().count() + a.annotations_in_targets(AnnotationDepth::Max).count();
                    n += 1;
                }
            }
        }
        Ok(n)
    });
    match r {
        Ok(Ok(n)) => {
            if n != h.model.anns.len() || stam::verif::note_count("query_error") != before {
                rep.violation(
                    format!("C02/query-all/rows-differ/after:{}", after),
                    json!({"rows": n, "live": h.model.anns.len(), "history": h.replay_json()}),
                );
            }
        }
        Ok(Err(e)) => rep.violation(format!("C02/query-all/error/after:{}", after), json!({"error": format!("{}", e), "history": h.replay_json()})),
        Err(p) => rep.violation(
            format!("C02/query-all/panic/{}/after:{}", p.class(), after),
            json!({"panic": p.msg, "at": p.loc, "history": h.replay_json()}),
        ),
    }
}

pub fn run(p: &Params, rep: &mut Report) {
    rep.rule = "seeded op-histories biased towards removals (by id, by handle and through DELETE queries; strict and non-strict; shared data, second keys, diamonds of annotations on annotations, metadata annotations on keys/data of a removed set, resources nobody annotates). After every removal: return value vs model, full observation + index dump vs the model's cascade (least fixed point), to_json_string and a SELECT over all annotations must succeed. distinct_nontrivial = distinct (removal kind, cascade size bucket, shared?, store shape) tuples with a non-empty cascade or a shared item".into();
    rep.assumptions = vec![
        "cascade semantics are appendix A of DESIGN.md (doc comments of remove_* and README 'Removing')".into(),
        "removal requests naming unknown items are not judged (the library silently returns Ok for unknown ids)".into(),
        "DELETE queries are generated for ANNOTATION / RESOURCE / DATASET by plain alphanumeric id".into(),
    ];
    let total: u64 = if p.thorough { 150000 } else { 9000 };
    let maxops = if p.thorough { 40 } else { 28 };
    for k in p.cases(total) {
        rep.current_case = p.case_coord(k);
        rep.cases += 1;
        let mut rng = Rng::new(p.seed, "c02", k);
        let mut h = History::new(*rng.pick(&[100usize, 0, 2]), rng.chance(1, 2));
        let mut cfg = GenCfg::default();
        cfg.rm_boost = 3;
        cfg.query_delete = true;
        cfg.hostile_ids = rng.chance(1, 6);
        cfg.max_anns = 14;
        cfg.keydata_in_complex = rng.chance(1, 3);
        let mut g = Gen::new(cfg);
        let nops = rng.range(8, maxops) as usize;
        for _ in 0..nops {
            let op = g.gen_op(&mut rng, &h.model);
            let shared = match &op {
                Op::RemoveData { set, data, .. } => {
                    let s = h.model.set(set);
                    let d = s.and_then(|s| h.model.data(s, data));
                    match (s, d) {
                        (Some(s), Some(d)) => h.model.anns.values().filter(|a| a.data.contains(&(s, d))).count() >= 2,
                        _ => false,
                    }
                }
                _ => false,
            };
            let r = h.step(&op);
            rep.count(&format!("op/{}/{}", op.kind(), r.agreement.class().split('/').next().unwrap_or("")));
            if is_removal(&op) {
                rep.eval();
                match &r.agreement {
                    Agreement::RealErrModelOk(e) => {
                        rep.violation(
                            format!("C02/refused/{}/{}", op.kind(), normalise_msg(e)),
                            json!({"error": e, "history": h.replay_json()}),
                        );
                    }
                    Agreement::Panic(pn) => {
                        rep.violation(
                            format!("C02/panic/{}/{}", op.kind(), pn.class()),
                            json!({"panic": pn.msg, "at": pn.loc, "history": h.replay_json()}),
                        );
                    }
                    _ => {}
                }
            }
            if !r.agreement.in_step() {
                rep.count(&format!("history-ended/{}", r.agreement.class()));
                break;
            }
            if is_removal(&op) {
                let n = r.effect.removed_annotations.len();
                if n > 0 || shared {
                    let bucket = match n {
                        0 => "0",
                        1 => "1",
                        2 => "2",
                        _ => "3+",
                    };
                    rep.distinct(&format!("{}|{}|{}|{}", op.kind(), bucket, shared, h.model.shape()));
                    rep.count(&format!("cascade/{}/{}", op.kind(), bucket));
                }
                let clean = check_state(&h, rep, op.kind(), "C02", true);
                usable(&h, rep, op.kind());
                if !clean {
                    rep.count("history-ended/violation");
                    break;
                }
            }
        }
        if k % 211 == 0 {
            rep.sample(json!({"case": k, "history": h.replay_json(), "final_shape": h.model.shape()}));
        }
    }
}
