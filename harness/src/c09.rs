//! C09 — STAMQL parsing is total; print∘parse is a fixpoint.
//! Oracles: catch_unwind + a stall watchdog for totality; structural equality (a comparer over the public
//! accessors of Query / Constraint / Assignment), string equality of the second print, and result equality
//! on three stores for the fixpoint.

use crate::hist::path_class;
use crate::util::*;
use serde_json::{json, Value};
use stam::*;
use std::sync::atomic::{AtomicU64, Ordering};
use std::sync::{Arc, Mutex};

// ---------------------------------------------------------------------------------------------
// structure of a query through its public accessors

fn variant_of(debug: &str) -> String {
    debug.chars().take_while(|c| c.is_alphanumeric()).collect()
}

fn constraint_json(c: &Constraint) -> Value {
    match c {
        Constraint::Union(subs) => json!({"variant": "Union", "members": subs.iter().map(constraint_json).collect::<Vec<_>>()}),
        Constraint::Regex(r) => json!({"variant": "Regex", "v": r.as_str()}),
        other => {
            let d = format!("{:?}", other);
            json!({"variant": variant_of(&d), "v": d})
        }
    }
}

pub fn structure(q: &Query) -> Value {
    let attrs: Vec<&Vec<&str>> = q.constraints_with_attributes().map(|(_, a)| a).collect();
    let empty: Vec<&str> = Vec::new();
    let constraints: Vec<Value> = q.constraints().enumerate().map(|(i, c)| json!({"attributes": attrs.get(i).copied().unwrap_or(&empty), "c": constraint_json(c)})).collect();
    let assignments: Vec<Value> = q
        .assignments()
        .map(|a| {
            let d = format!("{:?}", a);
            json!({"variant": variant_of(&d), "v": d})
        })
        .collect();
    json!({
        "querytype": q.querytype().as_str(),
        "resulttype": q.resulttype_as_str(),
        "name": q.name(),
        "qualifier": format!("{:?}", q.qualifier()),
        "attributes": q.attributes().collect::<Vec<_>>(),
        "constraints": constraints,
        "assignments": assignments,
        "subqueries": q.subqueries().map(structure).collect::<Vec<_>>(),
    })
}

/// which constraint/assignment variant a structural difference sits in (for signatures)
fn variant_at(s: &Value, path: &str) -> String {
    let mut cur = s;
    let mut last = String::new();
    for comp in path.split('/').filter(|c| !c.is_empty()) {
        let next = match cur {
            Value::Object(m) => m.get(comp),
            Value::Array(a) => comp.parse::<usize>().ok().and_then(|i| a.get(i)),
            _ => None,
        };
        match next {
            Some(n) => {
                if let Some(v) = n.get("variant").and_then(|v| v.as_str()) {
                    last = v.to_string();
                }
                cur = n;
            }
            None => break,
        }
    }
    last
}

// ---------------------------------------------------------------------------------------------
// stores to evaluate on

const R1: &str = "Hello world. The fly can fly, the bee cannot fly twice. Été 日本.";

fn meaning_store(variant: usize) -> AnnotationStore {
    let mut store = AnnotationStore::new(Config::default().with_debug(false)).with_id("c09");
    store.add_resource(TextResourceBuilder::new().with_id("r1").with_text(R1)).unwrap();
    store.add_resource(TextResourceBuilder::new().with_id("r2").with_text("a second resource, fly")).unwrap();
    store.add_dataset(AnnotationDataSetBuilder::new().with_id("s").with_key("type").with_key("pos").with_key("n")).unwrap();
    store.add_dataset(AnnotationDataSetBuilder::new().with_id("s2").with_key("type")).unwrap();
    if variant == 2 {
        return store;
    }
    let words: [(usize, usize, &str); 8] = [(0, 5, "intj"), (6, 11, "noun"), (13, 16, "det"), (17, 20, "noun"), (21, 24, "verb"), (25, 28, "verb"), (30, 33, "det"), (34, 37, "noun")];
    for (i, (b, e, pos)) in words.iter().enumerate() {
        if variant == 1 && i % 2 == 1 {
            continue;
        }
        store
            .annotate(
                AnnotationBuilder::new()
                    .with_id(format!("w{}", i))
                    .with_target(SelectorBuilder::textselector("r1", Offset::simple(*b, *e)))
                    .with_data("s", "type", "word")
                    .with_data("s", "pos", *pos)
                    .with_data("s", "n", i as isize),
            )
            .unwrap();
    }
    store.annotate(AnnotationBuilder::new().with_id("sent1").with_target(SelectorBuilder::textselector("r1", Offset::simple(0, 12))).with_data("s", "type", "sentence").with_data("s", "n", 1.5)).unwrap();
    store.annotate(AnnotationBuilder::new().with_id("sent2").with_target(SelectorBuilder::textselector("r1", Offset::simple(13, 55))).with_data("s", "type", "sentence").with_data("s", "flag", true)).unwrap();
    store.annotate(AnnotationBuilder::new().with_id("a1").with_target(SelectorBuilder::annotationselector("w0", Some(Offset::whole()))).with_data("s2", "type", "note").with_data("s", "none", DataValue::Null)).unwrap();
    store.annotate(AnnotationBuilder::new().with_id("meta1").with_target(SelectorBuilder::resourceselector("r1")).with_data("s", "author", "someone").with_data("s", "when", DataValue::Datetime(chrono::DateTime::parse_from_rfc3339("2024-01-02T03:04:05+00:00").unwrap()))).unwrap();
    store.annotate(AnnotationBuilder::new().with_id("meta2").with_target(SelectorBuilder::datasetselector("s")).with_data("s2", "type", "setnote")).unwrap();
    store.annotate(AnnotationBuilder::new().with_id("r2a").with_target(SelectorBuilder::textselector("r2", Offset::simple(19, 22))).with_data("s", "type", "word").with_data("s", "pos", "noun")).unwrap();
    store
}

fn item_repr(item: &QueryResultItem) -> String {
    match item {
        QueryResultItem::None => "none".into(),
        QueryResultItem::TextSelection(t) => format!("text:{}:{}-{}", t.resource().handle().as_usize(), t.begin(), t.end()),
        QueryResultItem::Annotation(a) => format!("annotation:{}", a.handle().as_usize()),
        QueryResultItem::TextResource(r) => format!("resource:{}", r.handle().as_usize()),
        QueryResultItem::DataKey(k) => format!("key:{}:{}", k.set().handle().as_usize(), k.handle().as_usize()),
        QueryResultItem::AnnotationData(d) => format!("data:{}:{}", d.set().handle().as_usize(), d.handle().as_usize()),
        QueryResultItem::AnnotationDataSet(s) => format!("dataset:{}", s.handle().as_usize()),
        QueryResultItem::AnnotationSubStore(s) => format!("substore:{}", s.handle().as_usize()),
    }
}

/// the answer of a query on a store: rows of (name, item), or that it was refused; None = evaluation panicked (C08's business)
fn evaluate<'s>(store: &'s AnnotationStore, q: Query<'s>) -> Option<Result<Vec<Vec<(Option<String>, String)>>, String>> {
    let before = stam::verif::note_count("query_error");
    let r = guard(move || match store.query(q) {
        Err(e) => Err(variant_of(&format!("{:?}", e))),
        Ok(iter) => {
            let mut rows = Vec::new();
            for row in iter.take(300) {
                let names: Vec<Option<String>> = row.names().map(|n| n.map(|s| s.to_string())).collect();
                rows.push(names.into_iter().zip(row.iter().map(item_repr)).collect());
            }
            Ok(rows)
        }
    });
    // an error raised while iterating is printed and swallowed by the iterator; the hook makes it observable
    if stam::verif::note_count("query_error") != before {
        return Some(Err("error-during-evaluation".into()));
    }
    r.ok()
}

/// like evaluate(), for a query that borrows from a string living shorter than the store
fn evaluate_short<'s, 'q>(store: &'s AnnotationStore, q: Query<'q>) -> Option<Result<Vec<Vec<(Option<String>, String)>>, String>>
where
    's: 'q,
{
    // SAFETY of lifetimes: none needed, the store reference is simply re-borrowed for the shorter lifetime
    let store: &'q AnnotationStore = store;
    evaluate(store, q)
}

// ---------------------------------------------------------------------------------------------
// grammar-directed generation of well-formed STAMQL text

const RESULTS: [&str; 6] = ["ANNOTATION", "DATA", "KEY", "TEXT", "RESOURCE", "DATASET"];
const IDS_ANN: [&str; 7] = ["w0", "w3", "sent1", "a1", "meta1", "nope", "my annotation"];
const IDS_RES: [&str; 3] = ["r1", "r2", "nope"];
const IDS_SET: [&str; 3] = ["s", "s2", "nope"];
const KEYS: [&str; 8] = ["type", "pos", "n", "flag", "when", "none", "author", "nokey"];
const STRVALS: [&str; 23] = ["word", "noun", "sentence", "verb", "note", "x y", "é日", "semi;colon", "a]b", "True", "FALSE", "NULL", "Any", "1", "-2.5", "2024-01-02", "or", "OR", "a|b", "true", "null", "any", "2024-01-02T03:04:05+00:00"];
const TEXTS: [&str; 6] = ["fly", "the", "Hello", "FLY", "日本", "not there"];
const REGEXES: [&str; 4] = ["fl.", "[Tt]he", r"\w+ly", "b(e)e"];
const RELOPS: [&str; 10] = ["EQUALS", "EMBEDS", "EMBEDDED", "OVERLAPS", "PRECEDES", "SUCCEEDS", "SAMEBEGIN", "SAMEEND", "BEFORE", "AFTER"];
const CMPOPS: [&str; 6] = ["=", "!=", ">", ">=", "<", "<="];
const ATTRS: [&str; 3] = ["@x", "@KEEP", "@a=b"];

struct TextGen<'r> {
    rng: &'r mut Rng,
    /// variables in scope: (name, result type)
    scope: Vec<(String, &'static str)>,
    counter: usize,
    /// plain style: single spaces, everything quoted, upper case
    plain: bool,
}

impl<'r> TextGen<'r> {
    fn ws(&mut self) -> &'static str {
        if self.plain {
            " "
        } else {
            *self.rng.pick(&[" ", " ", " ", "\n", "\t", "  ", "\n    "])
        }
    }
    fn arg(&mut self, s: &str) -> String {
        let safe = !s.is_empty() && s.chars().all(|c| c.is_ascii_alphanumeric()) && s.chars().any(|c| c.is_ascii_lowercase());
        if safe && !self.plain && self.rng.chance(1, 3) {
            s.to_string()
        } else {
            format!("\"{}\"", s)
        }
    }
    fn var(&mut self, ty: &[&str]) -> String {
        let cands: Vec<String> = self.scope.iter().filter(|(_, t)| ty.contains(t)).map(|(n, _)| n.clone()).collect();
        if !cands.is_empty() && self.rng.chance(9, 10) {
            cands[self.rng.below(cands.len())].clone()
        } else if !self.scope.is_empty() && self.rng.chance(1, 2) {
            self.scope[self.rng.below(self.scope.len())].0.clone()
        } else {
            "unbound".to_string()
        }
    }
    fn as_qual(&mut self, allow_recursive: bool) -> String {
        match self.rng.below(6) {
            0 => format!("AS{}METADATA{}", self.ws(), self.ws()),
            1 => format!("AS{}TARGET{}", self.ws(), self.ws()),
            2 if allow_recursive => format!("AS{}METADATA{}RECURSIVE{}", self.ws(), self.ws(), self.ws()),
            _ => String::new(),
        }
    }
    fn offset(&mut self) -> String {
        // cursors at the limits of the integer types, 1 in 12
        if self.rng.chance(1, 12) {
            const X: [&str; 9] = ["-9223372036854775808", "-9223372036854775809", "-18446744073709551615", "9223372036854775807", "9223372036854775808", "18446744073709551615", "18446744073709551616", "-0", "0"];
            let a = *self.rng.pick(&X[..]);
            let b = *self.rng.pick(&X[..]);
            return if self.rng.chance(1, 2) { format!("{}OFFSET{}{}{}{}", self.ws(), self.ws(), a, self.ws(), b) } else { format!("{}OFFSET{}{}", self.ws(), self.ws(), a) };
        }
        match self.rng.below(6) {
            0 => format!("{}OFFSET{}{}{}{}", self.ws(), self.ws(), self.rng.range(0, 9), self.ws(), self.rng.range(9, 20)),
            1 => format!("{}OFFSET{}{}", self.ws(), self.ws(), self.rng.range(0, 9)),
            2 => format!("{}OFFSET{}-{}{}-{}", self.ws(), self.ws(), self.rng.range(3, 9), self.ws(), self.rng.range(0, 2)),
            3 => format!("{}OFFSET{}WHOLE", self.ws(), self.ws()),
            _ => String::new(),
        }
    }
    fn value(&mut self, op: &str) -> String {
        let ordered = op != "=" && op != "!=";
        match self.rng.below(if ordered { 4 } else { 12 }) {
            0 => format!("{}", self.rng.range(-5, 9)),
            1 => format!("{}.{}", self.rng.range(-3, 9), self.rng.range(0, 99)),
            2 => (*self.rng.pick(&["2024-01-02T03:04:05+00:00", "2024-02-29T23:59:59.250+01:00", "1999-12-31T00:00:00.000001-11:30", "2038-01-19T03:14:08Z", "2024-01-02T03:04:05.5Z"])).to_string(),
            3 => format!("{}", self.rng.range(0, 3)),
            4 => "null".into(),
            5 => "any".into(),
            6 => (*self.rng.pick(&["true", "false"])).into(),
            7 => format!("\"{}|{}\"", self.rng.pick(&STRVALS[..4]), self.rng.pick(&STRVALS[..4])),
            8 => format!("{}|{}|1.5", self.rng.pick(&STRVALS[..4]), self.rng.range(0, 4)),
            _ => {
                let v = *self.rng.pick(&STRVALS[..]);
                self.arg(v)
            }
        }
    }
    fn constraint(&mut self, depth: usize) -> String {
        let w = self.ws();
        let attr = if !self.plain && self.rng.chance(1, 12) { format!("{} ", self.rng.pick(&ATTRS[..])) } else { String::new() };
        let body = match self.rng.below(if depth == 0 { 15 } else { 13 }) {
            0 => {
                let id = *self.rng.pick(&IDS_ANN[..]);
                format!("ID{}{}", w, self.arg(id))
            }
            1 => match self.rng.below(4) {
                0 => format!("TEXT{}AS{}NOCASE{}{}", w, self.ws(), self.ws(), {
                    let t = *self.rng.pick(&TEXTS[..]);
                    self.arg(t)
                }),
                1 => format!("TEXT{}AS{}{}{}\"{}\"", w, self.ws(), self.rng.pick(&["REGEX", "REGEXP"]), self.ws(), self.rng.pick(&REGEXES[..])),
                2 => format!("TEXT{}?{}", w, self.var(&["TEXT", "ANNOTATION"])),
                _ => {
                    let t = *self.rng.pick(&TEXTS[..]);
                    format!("TEXT{}{}", w, self.arg(t))
                }
            },
            2 => {
                let q = self.as_qual(true);
                let target = if self.rng.chance(1, 2) {
                    format!("?{}", self.var(&["ANNOTATION"]))
                } else {
                    let id = *self.rng.pick(&IDS_ANN[..]);
                    self.arg(id)
                };
                format!("ANNOTATION{}{}{}{}", w, q, target, self.offset())
            }
            3 => {
                let q = self.as_qual(false);
                let target = if self.rng.chance(1, 3) {
                    format!("?{}", self.var(&["RESOURCE"]))
                } else {
                    let id = *self.rng.pick(&IDS_RES[..]);
                    self.arg(id)
                };
                format!("RESOURCE{}{}{}{}", w, q, target, self.offset())
            }
            4 => {
                let q = self.as_qual(false);
                let target = if self.rng.chance(1, 3) {
                    format!("?{}", self.var(&["DATASET"]))
                } else {
                    let id = *self.rng.pick(&IDS_SET[..]);
                    self.arg(id)
                };
                format!("DATASET{}{}{}", w, q, target)
            }
            5 => format!("RELATION{}?{}{}{}", w, self.var(&["TEXT", "ANNOTATION"]), self.ws(), self.rng.pick(&RELOPS[..])),
            6 | 7 | 8 => {
                let q = self.as_qual(false);
                if self.rng.chance(1, 6) {
                    format!("DATA{}{}?{}", w, q, self.var(&["DATA"]))
                } else {
                    let set = *self.rng.pick(&IDS_SET[..]);
                    let key = *self.rng.pick(&KEYS[..]);
                    let (set, key) = (self.arg(set), self.arg(key));
                    if self.rng.chance(1, 4) {
                        format!("DATA{}{}{}{}{}", w, q, set, self.ws(), key)
                    } else {
                        let op = *self.rng.pick(&CMPOPS[..]);
                        format!("DATA{}{}{}{}{}{}{}{}{}", w, q, set, self.ws(), key, self.ws(), op, self.ws(), self.value(op))
                    }
                }
            }
            9 => {
                let q = self.as_qual(false);
                let op = *self.rng.pick(&CMPOPS[..]);
                format!("VALUE{}{}{}{}{}", w, q, op, self.ws(), self.value(op))
            }
            10 => {
                let q = self.as_qual(false);
                format!("KEY{}{}?{}", w, q, self.var(&["KEY"]))
            }
            11 => match self.rng.below(3) {
                0 => format!("SUBSTORE{}NONE", w),
                1 => format!("SUBSTORE{}?{}", w, self.var(&["SUBSTORE"])),
                _ => format!("SUBSTORE{}\"sub1\"", w),
            },
            12 => match self.rng.below(3) {
                0 => format!("LIMIT{}{}", w, self.rng.range(-3, 5)),
                _ => format!("LIMIT{}{}{}{}", w, self.rng.range(-3, 3), self.ws(), self.rng.range(-2, 6)),
            },
            _ => {
                let n = self.rng.range(1, 3);
                let mut s = format!("[{}", self.ws());
                for i in 0..n {
                    if i > 0 {
                        s += " OR ";
                    }
                    let c = self.constraint(depth + 1);
                    // members of a union are written without the closing semicolon
                    s += c.trim_end().trim_end_matches(';');
                }
                s += self.ws();
                s += "]";
                s
            }
        };
        let semi = if body.ends_with('"') && !self.plain && self.rng.chance(1, 6) { "" } else { ";" };
        format!("{}{}{}", attr, body, semi)
    }
    fn select(&mut self, depth: usize, sub: bool) -> String {
        let mut s = String::new();
        if !self.plain && self.rng.chance(1, 10) {
            s += *self.rng.pick(&ATTRS[..]);
            s += " ";
        }
        s += "SELECT";
        s += self.ws();
        if sub && self.rng.chance(1, 4) {
            s += "OPTIONAL";
            s += self.ws();
        }
        let rt = *self.rng.pick(&RESULTS[..]);
        if !self.plain && self.rng.chance(1, 8) {
            s += &rt.to_lowercase();
        } else {
            s += rt;
        }
        let named = self.rng.chance(3, 4);
        let name = format!("v{}", self.counter);
        self.counter += 1;
        if named {
            s += self.ws();
            s += "?";
            s += &name;
        }
        let nc = if self.rng.chance(1, 8) { 0 } else { self.rng.range(1, 3) };
        if nc > 0 {
            s += self.ws();
            s += "WHERE";
            s += self.ws();
            for _ in 0..nc {
                s += &self.constraint(0);
                s += self.ws();
            }
        }
        if named {
            self.scope.push((name, rt));
        }
        if depth < 2 && self.rng.chance(if depth == 0 { 2 } else { 1 }, 5) {
            s += &self.subqueries(depth);
        }
        if named {
            // stays in scope for siblings below? no: a variable is visible to the sub-queries only
        }
        s
    }
    fn subqueries(&mut self, depth: usize) -> String {
        let mut s = String::new();
        s += self.ws();
        s += "{";
        s += self.ws();
        let n = self.rng.range(1, if depth == 0 { 3 } else { 2 });
        let mark = self.scope.len();
        for i in 0..n {
            if i > 0 {
                s += self.ws();
                s += "|";
                s += self.ws();
            }
            s += &self.select(depth + 1, true);
        }
        self.scope.truncate(mark);
        s += self.ws();
        s += "}";
        s
    }
    fn assignment(&mut self) -> String {
        let w = self.ws();
        let body = match self.rng.below(8) {
            0 => format!("ID{}\"new{}\"", w, self.rng.below(100)),
            1 | 2 | 3 => {
                let set = *self.rng.pick(&IDS_SET[..]);
                let key = *self.rng.pick(&KEYS[..]);
                let (set, key) = (self.arg(set), self.arg(key));
                let v = match self.rng.below(6) {
                    0 => String::new(),
                    1 => format!("{}{}", self.ws(), self.rng.range(-5, 50)),
                    2 => format!("{}{}.5", self.ws(), self.rng.range(-5, 50)),
                    3 => format!("{}{}", self.ws(), self.rng.pick(&["true", "false"])),
                    _ => {
                        let v = *self.rng.pick(&STRVALS[..]);
                        format!("{}{}", self.ws(), self.arg(v))
                    }
                };
                format!("DATA{}{}{}{}{}", w, set, self.ws(), key, v)
            }
            4 | 5 => format!("TARGET{}?{}{}", w, self.var(&["TEXT", "ANNOTATION", "RESOURCE"]), self.offset()),
            6 => (*self.rng.pick(&["COMPOSITE", "MULTI", "DIRECTIONAL"])).to_string(),
            _ => format!("TARGET{}?{}", w, self.var(&["TEXT", "ANNOTATION"])),
        };
        format!("{};", body)
    }
    fn query(&mut self) -> String {
        match self.rng.below(8) {
            0 => {
                // ADD
                let mut s = format!("ADD{}ANNOTATION", self.ws());
                if self.rng.chance(1, 2) {
                    s += self.ws();
                    s += "?new";
                }
                // the variables of the sub-queries are what the assignments refer to
                let sub = self.subqueries(0);
                self.scope.push(("v0".into(), "TEXT"));
                self.scope.push(("v1".into(), "ANNOTATION"));
                s += self.ws();
                s += "WITH";
                s += self.ws();
                for _ in 0..self.rng.range(1, 3) {
                    s += &self.assignment();
                    s += self.ws();
                }
                s += &sub;
                s
            }
            1 => {
                let mut s = format!("DELETE{}ANNOTATION", self.ws());
                if self.rng.chance(3, 4) {
                    s += self.ws();
                    s += "?v0";
                }
                s += &self.subqueries(0);
                s
            }
            _ => self.select(0, false),
        }
    }
}

pub fn gen_valid(rng: &mut Rng, plain: bool) -> String {
    let mut g = TextGen { rng, scope: Vec::new(), counter: 0, plain };
    g.query()
}

// ---------------------------------------------------------------------------------------------
// hostile strings

const TOKENS: [&str; 66] = [
    "SELECT", "ADD", "DELETE", "OPTIONAL", "ANNOTATION", "DATA", "KEY", "TEXT", "RESOURCE", "DATASET", "WHERE", "WITH", "ID", "RELATION", "VALUE", "SUBSTORE", "LIMIT", "OFFSET", "AS", "METADATA", "TARGET",
    "RECURSIVE", "NOCASE", "REGEX", "NONE", "WHOLE", "EMBEDS", "OR", "[", "]", "{", "}", "|", ";", "?", "?x", "@", "@a", "=", "!=", ">", ">=", "<", "<=", "\"", "\\", "\"a\"", "a", "null", "any", "true", "-", ".", "-.", "1", "-1", "1.5", "True", "FALSE", "Null", "ANY", "\"true\"", "\"null\"",
    "99999999999999999999999999999999999999999", "COMPOSITE", "2024-01-02T03:04:05+00:00",
];
const SEPS: [&str; 12] = [" ", " ", " ", " ", "", "\n", "\t", "\r", "\u{a0}", "\u{2003}", "\u{3000}", "  "];
const NUMBERS: [&str; 20] = [
    "-", ".", "-.", "--1", "1-", "1.", ".5", "-.5", "1..2", "1.2.3", "1e999", "1e5", "0x10", "+1", "9223372036854775807", "9223372036854775808", "-9223372036854775809", "0000000000000000000000000000000000000001",
    "3.4028236e99999", "-0",
];
const UNI: [&str; 10] = ["é", "日", "😀", "\u{a0}", "\u{2003}", "\u{301}", "\u{feff}", "\u{0}", "ß", "\u{202e}"];

fn mutate(rng: &mut Rng, base: &str) -> String {
    let chars: Vec<char> = base.chars().collect();
    let tokens: Vec<&str> = base.split(' ').collect();
    match rng.below(13) {
        12 => {
            // change the case of one token
            let i = rng.below(tokens.len().max(1));
            let mut v: Vec<String> = tokens.iter().map(|t| t.to_string()).collect();
            if i < v.len() {
                v[i] = match rng.below(3) {
                    0 => v[i].to_uppercase(),
                    1 => v[i].to_lowercase(),
                    _ => {
                        let mut c = v[i].chars();
                        match c.next() {
                            Some(f) => f.to_uppercase().collect::<String>() + &c.as_str().to_lowercase(),
                            None => String::new(),
                        }
                    }
                };
            }
            v.join(" ")
        }
        0 => chars[..rng.below(chars.len() + 1)].iter().collect(), // truncation at a character boundary
        1 => {
            // delete one token
            let i = rng.below(tokens.len().max(1));
            tokens.iter().enumerate().filter(|(j, _)| *j != i).map(|(_, t)| *t).collect::<Vec<_>>().join(" ")
        }
        2 => {
            // duplicate one token
            let i = rng.below(tokens.len().max(1));
            let mut v: Vec<&str> = tokens.clone();
            if i < v.len() {
                v.insert(i, tokens[i]);
            }
            v.join(" ")
        }
        3 => {
            // replace a token by a number-like literal
            let i = rng.below(tokens.len().max(1));
            let mut v: Vec<&str> = tokens.clone();
            if i < v.len() {
                v[i] = *rng.pick(&NUMBERS[..]);
            }
            v.join(" ")
        }
        4 => {
            // replace a token by any token
            let i = rng.below(tokens.len().max(1));
            let mut v: Vec<&str> = tokens.clone();
            if i < v.len() {
                v[i] = *rng.pick(&TOKENS[..]);
            }
            v.join(" ")
        }
        5 => {
            // insert unicode at a random position
            let i = rng.below(chars.len() + 1);
            let mut s: String = chars[..i].iter().collect();
            s += *rng.pick(&UNI[..]);
            s.extend(chars[i..].iter());
            s
        }
        6 => {
            // delete one character
            if chars.is_empty() {
                return String::new();
            }
            let i = rng.below(chars.len());
            chars.iter().enumerate().filter(|(j, _)| *j != i).map(|(_, c)| *c).collect()
        }
        7 => {
            // replace the separators
            let sep = *rng.pick(&SEPS[..]);
            tokens.join(sep)
        }
        8 => {
            // quote soup: insert a quote or backslash
            let i = rng.below(chars.len() + 1);
            let mut s: String = chars[..i].iter().collect();
            s += *rng.pick(&["\"", "\\", "\\\"", "\"\"", "\\\\"]);
            s.extend(chars[i..].iter());
            s
        }
        9 => {
            // splice: head of this one, tail of itself from another point
            let i = rng.below(chars.len() + 1);
            let j = rng.below(chars.len() + 1);
            let mut s: String = chars[..i].iter().collect();
            s.extend(chars[j..].iter());
            s
        }
        10 => {
            // truncate right after a keyword
            let i = rng.below(tokens.len().max(1));
            tokens[..(i + 1).min(tokens.len())].join(" ")
        }
        _ => {
            // braces and bars
            let i = rng.below(chars.len() + 1);
            let mut s: String = chars[..i].iter().collect();
            s += *rng.pick(&["{", "}", "|", "{ }", "{|}", " { ", "[", "]", "[ ]", ";", ";;"]);
            s.extend(chars[i..].iter());
            s
        }
    }
}

fn soup(rng: &mut Rng) -> String {
    let n = rng.range(1, 9);
    let mut s = String::new();
    for _ in 0..n {
        match rng.below(12) {
            0 => s += *rng.pick(&NUMBERS[..]),
            1 => s += *rng.pick(&UNI[..]),
            _ => s += *rng.pick(&TOKENS[..]),
        }
        s += *rng.pick(&SEPS[..]);
    }
    s
}

// ---------------------------------------------------------------------------------------------
// totality

fn totality(p: &Params, rep: &mut Report, total: u64) {
    // the parser runs in a worker so that a call that never returns is an observation
    let current: Arc<Mutex<String>> = Arc::new(Mutex::new(String::new()));
    let progress = Arc::new(AtomicU64::new(0));
    let done = Arc::new(AtomicU64::new(0));
    let (tx, rx) = std::sync::mpsc::channel::<(String, String, Panic)>();
    let cases = p.cases(total);
    let seed = p.seed;
    let (cur2, prog2, done2) = (current.clone(), progress.clone(), done.clone());
    let counts: Arc<Mutex<std::collections::BTreeMap<String, u64>>> = Arc::new(Mutex::new(Default::default()));
    let counts2 = counts.clone();
    let distinct: Arc<Mutex<std::collections::BTreeSet<String>>> = Arc::new(Mutex::new(Default::default()));
    let distinct2 = distinct.clone();
    let handle = std::thread::Builder::new()
        .stack_size(64 << 20)
        .spawn(move || {
            let mut local: std::collections::BTreeMap<String, u64> = Default::default();
            let mut ldistinct: std::collections::BTreeSet<String> = Default::default();
            for k in cases {
                let mut rng = Rng::new(seed, "c09-total", k);
                let plain = rng.chance(1, 3);
                let base = gen_valid(&mut rng, plain);
                let (class, input) = match rng.below(8) {
                    0 => ("valid", base),
                    7 => ("token-soup", soup(&mut rng)),
                    _ => {
                        let mut s = mutate(&mut rng, &base);
                        if rng.chance(1, 4) {
                            s = mutate(&mut rng, &s);
                        }
                        ("mutated", s)
                    }
                };
                *cur2.lock().unwrap() = input.clone();
                let r1 = guard(|| Query::parse(&input).map(|(q, rest)| (q.querytype().as_str().to_string(), rest.len())).map_err(|e| variant_of(&format!("{:?}", e))));
                let r2 = guard(|| Query::try_from(input.as_str()).map(|_| ()).map_err(|e| variant_of(&format!("{:?}", e))));
                prog2.fetch_add(1, Ordering::Relaxed);
                let outcome = match &r1 {
                    Ok(Ok(_)) => "query".to_string(),
                    Ok(Err(e)) => format!("error:{}", e),
                    Err(_) => "panic".to_string(),
                };
                *local.entry(format!("parse/{}/{}", class, outcome)).or_insert(0) += 1;
                // what the parser saw: outcome x first token x class
                ldistinct.insert(format!("{}/{}/{}", class, outcome, input.split_whitespace().next().unwrap_or("").chars().take(10).collect::<String>()));
                if let Err(pn) = r1 {
                    let _ = tx.send(("Query::parse".into(), input.clone(), pn));
                }
                if let Err(pn) = r2 {
                    let _ = tx.send(("TryFrom<&str>".into(), input.clone(), pn));
                }
            }
            *counts2.lock().unwrap() = local;
            *distinct2.lock().unwrap() = ldistinct;
            done2.store(1, Ordering::SeqCst);
        })
        .expect("spawn");
    // watchdog on logical progress: no parse call may take longer than 20 s of wall clock (they take microseconds)
    let mut last = 0u64;
    let mut stalled_for = 0u32;
    loop {
        std::thread::sleep(std::time::Duration::from_millis(100));
        if done.load(Ordering::SeqCst) == 1 {
            break;
        }
        let now = progress.load(Ordering::Relaxed);
        if now == last {
            stalled_for += 1;
        } else {
            stalled_for = 0;
            last = now;
        }
        if stalled_for > 200 {
            let input = current.lock().unwrap().clone();
            rep.violation("C09/totality/does-not-return", json!({"input": input, "waited_s": 20}));
            rep.inconclusive = None;
            break;
        }
    }
    if done.load(Ordering::SeqCst) == 1 {
        let _ = handle.join();
    }
    while let Ok((entry, input, pn)) = rx.try_recv() {
        rep.violation(format!("C09/totality/panic/{}", pn.class()), json!({"entry": entry, "input": input, "panic": pn.msg, "at": pn.loc}));
    }
    let n = progress.load(Ordering::Relaxed);
    rep.evals(n * 2);
    for (k, v) in counts.lock().unwrap().iter() {
        rep.count_n(k, *v);
    }
    for d in distinct.lock().unwrap().iter() {
        rep.distinct(&format!("total/{}", d));
    }
}


// ---------------------------------------------------------------------------------------------
// fixpoint

/// does any argument contain a double quote, a backslash (Debug renders them escaped) or a list separator
fn has_hostile_arg(s: &Value) -> bool {
    match s {
        Value::Object(m) => {
            if let (Some(Value::String(variant)), Some(Value::String(v))) = (m.get("variant"), m.get("v")) {
                if variant != "Regex" && (v.contains("\\\"") || v.contains("\\\\") || v.contains('|')) {
                    return true;
                }
            }
            m.values().any(has_hostile_arg)
        }
        Value::Array(a) => a.iter().any(has_hostile_arg),
        _ => false,
    }
}

struct Fix<'a> {
    origin: &'static str,
    /// the query to print (parsed or built)
    q1: Query<'a>,
    /// compare the structure of the re-parsed query with q1 (false for handle-based constraints, which print as unions of ids)
    exact_structure: bool,
    /// an argument contains a double quote or a backslash (only possible for built queries)
    hostile: bool,
    source: Value,
}

/// what is wrong with print/parse of this query, if anything: (kind, detail)
fn assess<'a>(stores: &'a [&'a AnnotationStore], q1: &Query<'a>, exact_structure: bool, counts: &mut Vec<&'static str>) -> Option<(String, Value)> {
    let s1 = structure(q1);
    let p1 = match guard(|| q1.to_string()) {
        Err(pn) => return Some((format!("print-panic/{}", pn.class()), json!({"panic": pn.msg, "at": pn.loc}))),
        Ok(Err(_)) => {
            counts.push("fixpoint/unprintable");
            return None;
        }
        Ok(Ok(p)) => p,
    };
    counts.push("fixpoint/printed");
    let q2 = match guard(|| Query::try_from(p1.as_str())) {
        Err(pn) => return Some((format!("reparse-panic/{}", pn.class()), json!({"printed": p1, "panic": pn.msg, "at": pn.loc}))),
        Ok(Err(e)) => return Some(("printed-query-does-not-parse".into(), json!({"printed": p1, "error": format!("{}", e)}))),
        Ok(Ok(q)) => q,
    };
    let s2 = structure(&q2);
    if exact_structure {
        if let Some((path, a, b)) = first_diff(&s1, &s2, "") {
            return Some((format!("structure-differs{}", path_class_q(&path)), json!({"printed": p1, "path": path, "before": a, "after": b})));
        }
    }
    match guard(|| q2.to_string()) {
        Ok(Ok(p2)) => {
            if p2 != p1 {
                return Some(("second-print-differs".into(), json!({"printed": p1, "printed_again": p2})));
            }
        }
        Ok(Err(e)) => return Some(("second-print-fails".into(), json!({"printed": p1, "error": format!("{}", e)}))),
        Err(pn) => return Some((format!("second-print-panic/{}", pn.class()), json!({"printed": p1, "panic": pn.msg}))),
    }
    // same meaning: the same answer on each store
    if q1.querytype() != QueryType::Select {
        return None;
    }
    let has_limit = s1.to_string().contains("\"Limit\"");
    for (i, store) in stores.iter().enumerate() {
        if !exact_structure && (i > 0 || has_limit) {
            // handle collections belong to the first store; their order of evaluation differs from a union of ids
            break;
        }
        let a = evaluate(store, q1.clone());
        let Ok(q2c) = Query::try_from(p1.as_str()) else { return None };
        let b = evaluate_short(store, q2c);
        match (a, b) {
            (Some(Err(_)), Some(_)) if !exact_structure => {
                // a handle-collection constraint that is not implemented for this result type has no answer to compare with
                counts.push("fixpoint/original-not-evaluable");
            }
            (Some(a), Some(b)) => {
                counts.push("fixpoint/meaning-compared");
                if matches!(&a, Ok(rows) if !rows.is_empty()) {
                    counts.push("fixpoint/meaning-compared-nonempty");
                }
                let (a, b) = if exact_structure {
                    (a, b)
                } else {
                    let sortrows = |r: Result<Vec<Vec<(Option<String>, String)>>, String>| {
                        r.map(|mut v| {
                            v.sort();
                            v
                        })
                    };
                    (sortrows(a), sortrows(b))
                };
                if a != b {
                    return Some((
                        "meaning-differs".into(),
                        json!({"printed": p1, "store": i, "before": format!("{:?}", a).chars().take(600).collect::<String>(), "after": format!("{:?}", b).chars().take(600).collect::<String>()}),
                    ));
                }
            }
            _ => counts.push("fixpoint/evaluation-panicked"),
        }
    }
    None
}

/// a query as a tree of its parts, so that parts can be dropped (delta debugging of a violating query)
#[derive(Clone)]
struct QTree<'a> {
    rt: Option<Type>,
    name: Option<&'a str>,
    optional: bool,
    constraints: Vec<Constraint<'a>>,
    subs: Vec<QTree<'a>>,
}

fn to_tree<'a>(q: &Query<'a>) -> Option<QTree<'a>> {
    if q.querytype() != QueryType::Select || q.attributes().next().is_some() || q.constraints_with_attributes().any(|(_, a)| !a.is_empty()) {
        return None;
    }
    let mut subs = Vec::new();
    for s in q.subqueries() {
        subs.push(to_tree(s)?);
    }
    Some(QTree { rt: q.resulttype(), name: q.name(), optional: q.qualifier() == QueryQualifier::Optional, constraints: q.constraints().cloned().collect(), subs })
}

fn build<'a>(t: &QTree<'a>) -> Query<'a> {
    let mut q = Query::new(QueryType::Select, t.rt, t.name);
    if t.optional {
        q = q.with_qualifier(QueryQualifier::Optional);
    }
    for c in &t.constraints {
        q = q.with_constraint(c.clone());
    }
    for s in &t.subs {
        q = q.with_subquery(build(s));
    }
    q
}

fn reductions<'a>(t: &QTree<'a>) -> Vec<QTree<'a>> {
    let mut out = Vec::new();
    for i in 0..t.subs.len() {
        // hoist a sub-query, drop a sub-query
        let mut h = t.subs[i].clone();
        h.optional = false;
        out.push(h);
        let mut d = t.clone();
        d.subs.remove(i);
        out.push(d);
    }
    for i in 0..t.constraints.len() {
        let mut d = t.clone();
        d.constraints.remove(i);
        out.push(d);
        if let Constraint::Union(members) = &t.constraints[i] {
            for m in members {
                let mut d = t.clone();
                d.constraints[i] = m.clone();
                out.push(d);
            }
        }
    }
    if t.optional {
        let mut d = t.clone();
        d.optional = false;
        out.push(d);
    }
    if t.name.is_some() {
        let mut d = t.clone();
        d.name = None;
        out.push(d);
    }
    for i in 0..t.subs.len() {
        for r in reductions(&t.subs[i]) {
            let mut d = t.clone();
            d.subs[i] = r;
            out.push(d);
        }
    }
    out
}

fn kind_class(kind: &str) -> &str {
    kind.split('/').next().unwrap_or(kind)
}

fn fixpoint_case<'a>(rep: &mut Report, stores: &'a [&'a AnnotationStore], fx: Fix<'a>, minimise_budget: &mut u32) {
    rep.eval();
    let mut counts = Vec::new();
    let verdict = assess(stores, &fx.q1, fx.exact_structure, &mut counts);
    for c in counts {
        rep.count(c);
    }
    let s1 = structure(&fx.q1);
    rep.distinct(&format!("fix/{}/{}", fx.origin, culprit(&s1)));
    let Some((kind, detail)) = verdict else { return };
    // shrink the query while the same kind of violation persists, so that the signature names the construct at fault
    let mut minimal = s1.clone();
    let mut minimal_detail = detail.clone();
    if let Some(mut tree) = to_tree(&fx.q1) {
        let mut steps = 0;
        'outer: while *minimise_budget > 0 && steps < 40 {
            steps += 1;
            for r in reductions(&tree) {
                if *minimise_budget == 0 {
                    break 'outer;
                }
                *minimise_budget -= 1;
                let q = build(&r);
                let mut scratch = Vec::new();
                if let Some((k2, d2)) = assess(stores, &q, fx.exact_structure, &mut scratch) {
                    if kind_class(&k2) == kind_class(&kind) {
                        tree = r;
                        minimal = structure(&q);
                        minimal_detail = d2;
                        continue 'outer;
                    }
                }
            }
            break;
        }
    }
    let _ = fx.hostile;
    let features = culprit(&minimal);
    let handle_variant = ["Annotations", "Data", "Keys", "Resources", "TextSelections"].iter().find(|v| features.split(',').any(|f| f.split('+').next() == Some(**v)));
    let sig = if fx.origin == "built" && has_hostile_arg(&minimal) {
        // root cause: arguments are printed between double quotes without escaping, and the zero-copy parser cannot unescape
        "C09/fixpoint/built/explained:argument-with-quote-backslash-or-bar-is-printed-unescaped".to_string()
    } else if kind_class(&kind) == "meaning-differs"
        && handle_variant.is_some()
        && minimal_detail["after"].as_str().map(|s| s.starts_with("Err(\"error-during-evaluation")).unwrap_or(false)
        && minimal_detail["before"].as_str().map(|s| s.starts_with("Ok(")).unwrap_or(false)
    {
        // root cause: a handle collection prints as a union of id constraints, which the evaluator does not implement for every result type
        format!("C09/fixpoint/built/explained:handle-collection-prints-as-union-not-implemented-for-this-result-type/{}", handle_variant.unwrap())
    } else {
        format!("C09/fixpoint/{}/{}/{}", fx.origin, kind_class(&kind), features)
    };
    rep.violation(
        sig,
        json!({"source": fx.source, "kind": kind, "detail": detail, "minimal_query": minimal, "minimal_detail": minimal_detail}),
    );
}

fn path_class_q(path: &str) -> String {
    // indices become *
    let p = path_class(path);
    p.split('/').map(|c| if ["querytype", "resulttype", "qualifier", "attributes", "constraints", "assignments", "subqueries", "c", "v", "members", "variant"].contains(&c) || c.is_empty() { c } else { "*" }).collect::<Vec<_>>().join("/").replace("/name", "/name")
}

/// the constraint / assignment variants and special features present (for signatures of unparseable prints)
fn culprit(s: &Value) -> String {
    let mut feats: std::collections::BTreeSet<String> = Default::default();
    fn walk(s: &Value, feats: &mut std::collections::BTreeSet<String>, depth: usize) {
        if s["qualifier"] == "Optional" {
            feats.insert("OPTIONAL".into());
        }
        if s["querytype"] != "SELECT" {
            feats.insert(s["querytype"].as_str().unwrap_or("").to_string());
        }
        if let Some(cs) = s["constraints"].as_array() {
            if cs.is_empty() && depth > 0 {
                feats.insert("subquery-without-constraints".into());
            }
            for c in cs {
                cwalk(&c["c"], feats);
                if c["attributes"].as_array().map(|a| !a.is_empty()).unwrap_or(false) {
                    feats.insert("constraint-attribute".into());
                }
            }
        }
        if let Some(a) = s["assignments"].as_array() {
            for x in a {
                feats.insert(format!("assign:{}", x["variant"].as_str().unwrap_or("")));
            }
        }
        if let Some(sq) = s["subqueries"].as_array() {
            if sq.len() > 1 {
                feats.insert("several-subqueries".into());
            }
            for q in sq {
                walk(q, feats, depth + 1);
            }
        }
    }
    fn cwalk(c: &Value, feats: &mut std::collections::BTreeSet<String>) {
        let v = c["variant"].as_str().unwrap_or("");
        let d = c["v"].as_str().unwrap_or("");
        let mut f = v.to_string();
        if d.contains("Metadata") {
            f += "+AS-METADATA";
        }
        if d.contains("Max") {
            f += "+RECURSIVE";
        }
        if d.contains("Zero") {
            f += "+DEPTH-ZERO";
        }
        if d.contains("Float(") {
            f += "+float";
        }
        if d.contains("Or(") || d.contains("And(") || d.contains("HasElement") {
            f += "+list-operator";
        }
        if d.contains("Datetime(") {
            f += "+datetime";
        }
        feats.insert(f);
        if let Some(m) = c["members"].as_array() {
            for x in m {
                cwalk(x, feats);
            }
        }
    }
    walk(s, &mut feats, 0);
    feats.into_iter().collect::<Vec<_>>().join(",")
}

fn shape(s: &Value) -> String {
    culprit(s)
}

// programmatically built queries over static pools
const HOSTILE_IDS: [&str; 4] = ["with\"quote", "back\\slash", "trailing\\", "\"\""];

fn built_constraint(rng: &mut Rng, store: &'static AnnotationStore, depth: usize, allow_hostile: bool) -> (Constraint<'static>, bool) {
    let q = if rng.chance(1, 3) { SelectionQualifier::Metadata } else { SelectionQualifier::Normal };
    let d = *rng.pick(&[AnnotationDepth::One, AnnotationDepth::One, AnnotationDepth::Max, AnnotationDepth::Zero]);
    let off = match rng.below(4) {
        0 => Some(Offset::simple(1, 7)),
        1 => Some(Offset::new(Cursor::EndAligned(-5), Cursor::EndAligned(0))),
        _ => None,
    };
    let pick_id = |rng: &mut Rng, pool: &'static [&'static str]| -> &'static str {
        if allow_hostile && rng.chance(1, 10) {
            *rng.pick(&HOSTILE_IDS[..])
        } else {
            *rng.pick(pool)
        }
    };
    let op = |rng: &mut Rng| -> DataOperator<'static> {
        match rng.below(16) {
            0 => DataOperator::Any,
            1 => DataOperator::Null,
            2 => DataOperator::True,
            3 => DataOperator::False,
            4 => DataOperator::Equals(pick_id(rng, &STRVALS[..]).into()),
            5 => DataOperator::EqualsInt(rng.range(-4, 9) as isize),
            6 => DataOperator::EqualsFloat(*rng.pick(&[1.5, 1.0, -2.0, 0.0, 1e21, 1e-7, 3.0])),
            7 => DataOperator::GreaterThan(rng.range(-4, 9) as isize),
            8 => DataOperator::LessThanOrEqual(rng.range(-4, 9) as isize),
            9 => DataOperator::GreaterThanOrEqualFloat(*rng.pick(&[1.5, 2.0])),
            10 => DataOperator::LessThanFloat(*rng.pick(&[4.25, 4.0])),
            11 => DataOperator::Not(Box::new(DataOperator::Equals("noun".into()))),
            12 => DataOperator::Not(Box::new(DataOperator::EqualsInt(2))),
            13 => {
                let d = chrono::DateTime::parse_from_rfc3339(*rng.pick(&["2024-01-02T03:04:05+01:00", "2024-02-29T23:59:59.250+01:00", "1999-12-31T00:00:00.000001-11:30", "2038-01-19T03:14:08+00:00"])).unwrap();
                match rng.below(5) {
                    0 => DataOperator::ExactDatetime(d),
                    1 => DataOperator::BeforeDatetime(d),
                    2 => DataOperator::AtOrAfterDatetime(d),
                    3 => DataOperator::AtOrBeforeDatetime(d),
                    _ => DataOperator::AfterDatetime(d),
                }
            }
            14 => DataOperator::Or(vec![DataOperator::Equals("noun".into()), DataOperator::Equals("verb".into())]),
            _ => DataOperator::GreaterThanOrEqual(0),
        }
    };
    let mut exact = true;
    let c = match rng.below(if depth == 0 { 27 } else { 25 }) {
        0 => Constraint::Id(pick_id(rng, &IDS_ANN[..])),
        1 => Constraint::Annotation(pick_id(rng, &IDS_ANN[..]), q, d, off),
        2 => Constraint::TextResource(pick_id(rng, &IDS_RES[..]), q, off),
        3 => Constraint::DataSet(pick_id(rng, &IDS_SET[..]), q),
        4 => Constraint::DataKey { set: pick_id(rng, &IDS_SET[..]), key: pick_id(rng, &KEYS[..]), qualifier: q },
        5 => Constraint::SubStore(if rng.chance(1, 2) { None } else { Some("sub1") }),
        6 => Constraint::KeyVariable("k", q),
        7 => Constraint::DataVariable("d", q),
        8 => Constraint::DataSetVariable("ds", q),
        9 => Constraint::ResourceVariable("r", q, off),
        10 => Constraint::TextVariable("t"),
        11 => Constraint::SubStoreVariable("ss"),
        12 => Constraint::TextRelation { var: "t", operator: *rng.pick(&[TextSelectionOperator::embeds(), TextSelectionOperator::overlaps(), TextSelectionOperator::before(), TextSelectionOperator::equals()]) },
        13 | 14 => Constraint::KeyValue { set: pick_id(rng, &IDS_SET[..]), key: pick_id(rng, &KEYS[..]), operator: op(rng), qualifier: q },
        15 => Constraint::Value(op(rng), q),
        16 => Constraint::KeyValueVariable("k", op(rng), q),
        17 => Constraint::Text(pick_id(rng, &TEXTS[..]), if rng.chance(1, 2) { TextMode::Exact } else { TextMode::CaseInsensitive }),
        18 => Constraint::Regex(regex::Regex::new(*rng.pick(&REGEXES[..])).unwrap()),
        19 => Constraint::AnnotationVariable("a", q, d, off),
        20 => Constraint::Limit { begin: rng.range(-3, 3) as isize, end: rng.range(-3, 6) as isize },
        21 => {
            exact = false;
            Constraint::Annotations(store.annotations().filter(|a| a.handle().as_usize() % 3 == 0).to_handles(store), q, d)
        }
        22 => {
            exact = false;
            Constraint::Resources(store.resources().to_handles(store), q)
        }
        23 => {
            exact = false;
            Constraint::Keys(store.dataset("s").unwrap().keys().take(2).to_handles(store), q)
        }
        24 => {
            exact = false;
            Constraint::Data(store.dataset("s").unwrap().data().take(3).to_handles(store), q)
        }
        25 => {
            exact = false;
            Constraint::TextSelections(store.resource("r1").unwrap().textselections().take(2).to_handles(store), q)
        }
        _ => {
            let n = rng.range(1, 3);
            let mut v = Vec::new();
            for _ in 0..n {
                let (c, e) = built_constraint(rng, store, depth + 1, allow_hostile);
                exact &= e;
                v.push(c);
            }
            Constraint::Union(v)
        }
    };
    (c, exact)
}

fn built_query(rng: &mut Rng, store: &'static AnnotationStore, depth: usize, allow_hostile: bool) -> (Query<'static>, bool) {
    let rt = *rng.pick(&[Type::Annotation, Type::AnnotationData, Type::DataKey, Type::TextSelection, Type::TextResource, Type::AnnotationDataSet]);
    let names: [&'static str; 6] = ["a", "t", "r", "d", "k", "ds"];
    let name = if rng.chance(3, 4) { Some(*rng.pick(&names[..])) } else { None };
    let mut q = Query::new(QueryType::Select, Some(rt), name);
    if depth > 0 && rng.chance(1, 3) {
        q = q.with_qualifier(QueryQualifier::Optional);
    }
    let mut exact = true;
    for _ in 0..rng.range(0, 3) {
        let (c, e) = built_constraint(rng, store, 0, allow_hostile);
        exact &= e;
        // either builder: the owning one or the one that works through a mutable reference
        if rng.chance(1, 3) {
            q.constrain(c);
        } else {
            q = q.with_constraint(c);
        }
    }
    if depth < 2 && rng.chance(1, 3) {
        for _ in 0..rng.range(1, 2) {
            let (sq, e) = built_query(rng, store, depth + 1, allow_hostile);
            exact &= e;
            q = q.with_subquery(sq);
        }
    }
    (q, exact)
}

fn fixpoint(p: &Params, rep: &mut Report, total: u64) {
    let stores: Vec<&'static AnnotationStore> = (0..3).map(|i| &*Box::leak(Box::new(meaning_store(i)))).collect();
    // re-assessments spent on shrinking violating queries (per shard)
    let mut budget: u32 = 20_000;
    for k in p.cases(total) {
        rep.current_case = p.case_coord(k);
        rep.cases += 1;
        let mut rng = Rng::new(p.seed, "c09-fix", k);
        if rng.chance(1, 3) {
            let allow_hostile = rng.chance(1, 5);
            let (q, exact) = built_query(&mut rng, stores[0], 0, allow_hostile);
            let source = json!({"built": structure(&q)});
            let hostile = has_hostile_arg(&source);
            fixpoint_case(rep, &stores, Fix { origin: "built", q1: q, exact_structure: exact, hostile, source }, &mut budget);
        } else {
            let plain = rng.chance(1, 2);
            let text = gen_valid(&mut rng, plain);
            // leaked so that the parsed query can be evaluated on the long-lived stores (bounded by the number of cases)
            let text: &'static str = Box::leak(text.into_boxed_str());
            match guard(|| Query::try_from(text)) {
                Ok(Ok(q)) => {
                    rep.count("fixpoint/generated-accepted");
                    fixpoint_case(rep, &stores, Fix { origin: "parsed", q1: q, exact_structure: true, hostile: false, source: json!({"text": text}) }, &mut budget);
                }
                Ok(Err(e)) => {
                    rep.count("fixpoint/generated-rejected");
                    // which well-formed input the parser refuses is recorded (not a verdict of this property)
                    let msg: String = format!("{}", e).chars().take(60).collect();
                    rep.count(&format!("rejected/{}", normalise_msg(&msg)));
                    if rep.samples.len() < 6 {
                        rep.sample(json!({"rejected_wellformed_query": text, "error": format!("{}", e)}));
                    }
                }
                Err(_) => rep.count("fixpoint/generated-panicked"),
            }
        }
    }
}

pub fn run(p: &Params, rep: &mut Report) {
    rep.rule = "totality: seeded strings = grammar-generated well-formed STAMQL (SELECT/ADD/DELETE, all result types, every constraint keyword and qualifier, unions, limits, attributes, sub-queries two levels deep, varied whitespace/quoting/case), 12 kinds of mutation of those (truncation at every character boundary, token deletion/duplication/replacement by keywords and number-like literals of any size and sign, unicode insertion incl. multi-byte whitespace, quote/backslash insertion, splices, brace/bar/bracket insertion) and token soup; each fed to Query::parse and TryFrom<&str> under catch_unwind with a 20 s stall watchdog. fixpoint: parsed well-formed queries and programmatically built queries (every Constraint variant incl. handle collections, all DataOperator kinds, qualifiers, depths, offsets) are printed, re-parsed, compared structurally through the public accessors, printed again, and evaluated before/after on three stores. evaluations = parser calls + fixpoint cases + result comparisons; distinct_nontrivial = distinct (input class, outcome, leading token) for totality and distinct sets of constructs per fixpoint case".into();
    rep.assumptions = vec![
        "well-formed queries that the parser refuses are counted and sampled but are not a violation of this property".into(),
        "queries whose to_string() returns an error are unprintable and excluded from the fixpoint (And/Or/HasElement operators)".into(),
        "handle-collection constraints print as unions of id constraints: for those only re-parseability, stability of the second print and equal results are required".into(),
        "a panic while evaluating a query is C08's business and is only counted here".into(),
    ];
    let (t_total, t_fix): (u64, u64) = if p.thorough { (20_000_000, 300_000) } else { (200_000, 6_000) };
    match p.variant.as_deref() {
        Some(v) if v.starts_with("query:") => {
            for i in 0..3 {
                let store = meaning_store(i);
                match Query::try_from(&v[6..]) {
                    Ok(q) => {
                        eprintln!("structure: {}", structure(&q));
                        eprintln!("printed: {:?}", q.to_string());
                        eprintln!("store {}: {:?}", i, evaluate(&store, q));
                    }
                    Err(e) => eprintln!("parse error: {}", e),
                }
            }
        }
        Some("totality") => totality(p, rep, t_total),
        Some("fixpoint") => fixpoint(p, rep, t_fix),
        _ => {
            totality(p, rep, t_total);
            fixpoint(p, rep, t_fix);
        }
    }
}
