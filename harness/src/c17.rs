//! C17 — Web Annotation export is well-formed JSON faithful to the annotation.
//! Oracle: serde_json as the JSON reader; the shadow model for what target and body must say.

use crate::gen::GenCfg;
use crate::hist::*;
use crate::model::*;
use crate::util::*;
use serde_json::{json, Value};
use stam::*;

const CONTEXT_ANNO: &str = "http://www.w3.org/ns/anno.jsonld";

fn invalid_in_iri(c: char) -> bool {
    c == ' ' || c == '\t' || c == '\n' || c == '"'
}

fn is_iri(s: &str) -> bool {
    if let Some(pos) = s.find(':') {
        if s.find(invalid_in_iri).is_some() {
            return false;
        }
        matches!(&s[..pos], "http" | "https" | "urn" | "file" | "_")
    } else {
        false
    }
}

/// the documented id -> IRI rule: IRIs stay, other ids get the prefix (default "_:"), characters that cannot be in an IRI become '-'
fn into_iri(s: &str, prefix: &str) -> String {
    if is_iri(s) {
        return s.to_string();
    }
    let prefix = if prefix.is_empty() { "_:" } else { prefix };
    let mangled: String = s.chars().map(|c| if invalid_in_iri(c) { '-' } else { c }).collect();
    match prefix.chars().last() {
        Some('/') | Some('#') | Some(':') => format!("{}{}", prefix, mangled),
        _ => format!("{}/{}", prefix, mangled),
    }
}

/// what a string contains that JSON needs escaped (for signatures)
fn charclass(s: &str) -> &'static str {
    if s.contains('\\') {
        "backslash"
    } else if s.chars().any(|c| (c as u32) < 0x20 && c != '\n') || s.contains('\u{7f}') {
        "control-character"
    } else if s.contains('"') {
        "quote"
    } else if s.contains('\n') {
        "newline"
    } else if s.chars().any(|c| (c as u32) > 0xffff) {
        "non-bmp"
    } else if !s.is_ascii() {
        "non-ascii"
    } else {
        "plain"
    }
}

fn worst_class<'a>(items: impl Iterator<Item = &'a str>) -> &'static str {
    let order = ["backslash", "control-character", "quote", "newline", "non-bmp", "non-ascii", "plain"];
    let mut best = 6;
    for s in items {
        let c = charclass(s);
        let i = order.iter().position(|x| *x == c).unwrap_or(6);
        best = best.min(i);
    }
    order[best]
}

fn valueclass(v: &DataValue) -> String {
    match v {
        DataValue::Null => "null".into(),
        DataValue::Bool(_) => "bool".into(),
        DataValue::Int(_) => "int".into(),
        DataValue::Float(f) => if f.is_finite() { "float".into() } else { "float-non-finite".into() },
        DataValue::String(s) => format!("string-{}{}", charclass(s), if is_iri(s) { "-iri" } else { "" }),
        DataValue::Datetime(_) => "datetime".into(),
        DataValue::List(l) => {
            let mut k: Vec<String> = l.iter().map(valueclass).collect();
            k.sort();
            k.dedup();
            format!("list[{}]", k.join(","))
        }
    }
}

/// does the JSON value carry the data value with the same content and JSON type
fn value_matches(v: &DataValue, j: &Value) -> bool {
    match (v, j) {
        (DataValue::Null, Value::Null) => true,
        (DataValue::Bool(b), Value::Bool(x)) => b == x,
        (DataValue::Int(i), Value::Number(n)) => n.as_i64() == Some(*i as i64),
        (DataValue::Float(f), Value::Number(n)) => n.as_f64().map(|x| x == *f || (x - *f).abs() <= f.abs() * 1e-12).unwrap_or(false),
        (DataValue::String(s), Value::String(x)) => !is_iri(s) && s == x,
        (DataValue::String(s), Value::Object(o)) => is_iri(s) && o.get("id").and_then(|x| x.as_str()) == Some(s.as_str()),
        (DataValue::Datetime(d), Value::String(x)) => chrono::DateTime::parse_from_rfc3339(x).map(|p| p == *d).unwrap_or(false),
        // inside a list an IRI-like string keeps its JSON type (string); the {"id": ..} form is accepted there as well
        (DataValue::List(l), Value::Array(a)) => l.len() == a.len() && l.iter().zip(a).all(|(x, y)| value_matches(x, y) || matches!((x, y), (DataValue::String(s), Value::String(t)) if s == t)),
        _ => false,
    }
}

#[derive(Debug, Clone, PartialEq)]
enum Tgt {
    Text(String, usize, usize),
    Id(String, &'static str),
    Group(&'static str, Vec<Tgt>),
    /// not exportable (key / data selectors)
    Skip,
}

fn expected_target(m: &Model, s: &MSel, cfg: &WebAnnoConfig) -> Option<Tgt> {
    Some(match s {
        MSel::Text { res, b, e, .. } => Tgt::Text(into_iri(&m.resources.get(res)?.id, &cfg.default_resource_iri), *b, *e),
        MSel::Ann { off: Some((res, b, e, _)), .. } => Tgt::Text(into_iri(&m.resources.get(res)?.id, &cfg.default_resource_iri), *b, *e),
        MSel::Ann { ann, off: None } => match &m.anns.get(ann)?.id {
            Some(id) => Tgt::Id(into_iri(id, &cfg.default_annotation_iri), "Annotation"),
            None => return None, // the target annotation has no public id: not settled what to export
        },
        MSel::Res(r) => Tgt::Id(into_iri(&m.resources.get(r)?.id, &cfg.default_resource_iri), "Text"),
        MSel::Set(s) => Tgt::Id(into_iri(&m.sets.get(s)?.id, &cfg.default_resource_iri), "Dataset"),
        MSel::Key(..) | MSel::Data(..) => Tgt::Skip,
        MSel::Composite(v) => Tgt::Group("http://www.w3.org/ns/oa#Composite", v.iter().map(|x| expected_target(m, x, cfg)).collect::<Option<Vec<_>>>()?),
        MSel::Multi(v) => Tgt::Group("http://www.w3.org/ns/oa#Independents", v.iter().map(|x| expected_target(m, x, cfg)).collect::<Option<Vec<_>>>()?),
        MSel::Directional(v) => Tgt::Group("http://www.w3.org/ns/oa#List", v.iter().map(|x| expected_target(m, x, cfg)).collect::<Option<Vec<_>>>()?),
    })
}

/// read a target back from the exported JSON
fn read_target(j: &Value) -> Option<Tgt> {
    if let Some(items) = j.get("items").and_then(|x| x.as_array()) {
        let ty = j.get("type")?.as_str()?;
        let ty: &'static str = match ty {
            "http://www.w3.org/ns/oa#Composite" => "http://www.w3.org/ns/oa#Composite",
            "http://www.w3.org/ns/oa#Independents" => "http://www.w3.org/ns/oa#Independents",
            "http://www.w3.org/ns/oa#List" => "http://www.w3.org/ns/oa#List",
            _ => return None,
        };
        return Some(Tgt::Group(ty, items.iter().map(read_target).collect::<Option<Vec<_>>>()?));
    }
    if let Some(src) = j.get("source").and_then(|x| x.as_str()) {
        let sel = j.get("selector")?;
        if sel.get("type")?.as_str()? != "TextPositionSelector" {
            return None;
        }
        return Some(Tgt::Text(src.to_string(), sel.get("start")?.as_u64()? as usize, sel.get("end")?.as_u64()? as usize));
    }
    let id = j.get("id")?.as_str()?;
    let ty = match j.get("type")?.as_str()? {
        "Annotation" => "Annotation",
        "Text" => "Text",
        "Dataset" => "Dataset",
        _ => return None,
    };
    Some(Tgt::Id(id.to_string(), ty))
}

fn strip_skips(t: &Tgt) -> Tgt {
    match t {
        Tgt::Group(k, v) => {
            let mut items: Vec<Tgt> = v.iter().filter(|x| **x != Tgt::Skip).map(strip_skips).collect();
            if !k.ends_with("#List") {
                // the members of composite and multi selectors are kept in textual order, not in the order given: compare as a multiset
                items.sort_by_key(|x| format!("{:?}", x));
            }
            Tgt::Group(k, items)
        }
        x => x.clone(),
    }
}

fn texts_of(t: &Tgt, out: &mut Vec<(String, usize, usize)>) {
    match t {
        Tgt::Text(r, b, e) => out.push((r.clone(), *b, *e)),
        Tgt::Group(_, v) => v.iter().for_each(|x| texts_of(x, out)),
        _ => {}
    }
}

/// JSON-LD expansion of a compact IRI through the prefixes the exported @context declares
fn expand_compact(k: &str, context: &Value) -> String {
    if let (Some((prefix, local)), Some(arr)) = (k.split_once(':'), context.as_array()) {
        for entry in arr {
            if let Some(uri) = entry.as_object().and_then(|o| o.get(prefix)).and_then(|u| u.as_str()) {
                return format!("{}{}", uri, local);
            }
        }
    }
    k.to_string()
}

fn gen_config(rng: &mut Rng) -> (WebAnnoConfig, String) {
    let mut c = WebAnnoConfig::default();
    c.auto_generated = false;
    let mut name = Vec::new();
    c.auto_generator = rng.chance(1, 2);
    if rng.chance(1, 3) {
        c.default_resource_iri = (*rng.pick(&["https://example.org/res/", "https://example.org/res", "urn:x:"])).to_string();
        c.default_annotation_iri = "https://example.org/anno#".into();
        c.default_set_iri = "https://example.org/set".into();
        name.push("prefixes");
    }
    if name.is_empty() && rng.chance(1, 4) {
        // the empty prefix is documented to mean blank nodes, like the default "_:"
        if rng.chance(1, 2) {
            c.default_resource_iri = String::new();
        }
        if rng.chance(1, 2) {
            c.default_annotation_iri = String::new();
        }
        if rng.chance(1, 2) {
            c.default_set_iri = String::new();
        }
        name.push("empty-prefixes");
    }
    if rng.chance(1, 4) {
        c.extra_context = vec!["\"https://example.org/ctx.jsonld\"".to_string()];
        name.push("extra-context");
    }
    if rng.chance(1, 4) {
        // a namespace that ends in a separator, one that does not (the local part then starts with '/'), and a short one
        let (uri, n) = *rng.pick(&[("https://example.org/set/", "namespace"), ("https://example.org/set", "namespace-without-separator"), ("https://example.org/", "namespace-short"), ("https://example.org", "namespace-host")]);
        c = c.with_namespace("ex".into(), uri.into());
        name.push(n);
    }
    if rng.chance(1, 4) {
        c.extra_target_template = Some("{resource}/{begin}/{end}".into());
        name.push("extra-target");
    }
    (c, if name.is_empty() { "default".into() } else { name.join("+") })
}

fn check_annotation(rep: &mut Report, h: &History, ah: usize, cfg: &WebAnnoConfig, cfgname: &str) {
    let m = &h.model;
    let Some(ma) = m.anns.get(&ah) else { return };
    let Some(a) = h.store.annotation(AnnotationHandle::new(ah)) else { return };
    rep.eval();
    let out = match guard(|| a.to_webannotation(cfg)) {
        Err(p) => {
            rep.violation(format!("C17/export/panic/{}/{}", ma.target.kind(), p.class()), json!({"annotation": m.ann_name(ah), "target": m.sel_json(&ma.target), "panic": p.msg, "at": p.loc, "history": h.replay_json()}));
            return;
        }
        Ok(s) => s,
    };
    if out.is_empty() {
        rep.count(&format!("not-accepted/{}", ma.target.kind()));
        return;
    }
    // everything that ends up inside JSON strings
    let mut strings: Vec<String> = Vec::new();
    if let Some(id) = &ma.id {
        strings.push(id.clone());
    }
    let mut data: Vec<(String, String, DataValue)> = Vec::new();
    for (s, d) in &ma.data {
        let (Some(set), Some(dd)) = (m.sets.get(s), m.sets.get(s).and_then(|x| x.data.get(d))) else { continue };
        let Some(key) = set.keys.get(&dd.key) else { continue };
        data.push((set.id.clone(), key.id.clone(), dd.value.clone()));
        strings.push(set.id.clone());
        strings.push(key.id.clone());
    }
    fn sel_ids(m: &Model, s: &MSel, out: &mut Vec<String>) {
        match s {
            MSel::Text { res, .. } | MSel::Res(res) => out.extend(m.resources.get(res).map(|r| r.id.clone())),
            MSel::Ann { ann, off } => {
                out.extend(m.anns.get(ann).and_then(|a| a.id.clone()));
                if let Some((res, ..)) = off {
                    out.extend(m.resources.get(res).map(|r| r.id.clone()));
                }
            }
            MSel::Set(s) => out.extend(m.sets.get(s).map(|x| x.id.clone())),
            MSel::Multi(v) | MSel::Composite(v) | MSel::Directional(v) => v.iter().for_each(|x| sel_ids(m, x, out)),
            _ => {}
        }
    }
    sel_ids(m, &ma.target, &mut strings);
    let idclass = worst_class(strings.iter().map(|s| s.as_str()));
    let valclasses: Vec<String> = data.iter().map(|(_, _, v)| valueclass(v)).collect();
    let detail = |extra: Value| json!({"annotation": m.ann_name(ah), "config": cfgname, "exported": out, "target": m.sel_json(&ma.target), "data": data.iter().map(|(s, k, v)| json!([s, k, value_json(v)])).collect::<Vec<_>>(), "detail": extra, "history": h.replay_json()});

    // 1. a single well-formed JSON object
    let parsed: Value = match serde_json::from_str::<Value>(&out) {
        Ok(v) if v.is_object() => v,
        Ok(_) => {
            rep.violation("C17/not-a-json-object".to_string(), detail(json!({})));
            return;
        }
        Err(e) => {
            // name what made it ill-formed: the least JSON-friendly kind of id and of value present
            let has_key_or_data_member = matches!(expected_target(m, &ma.target, cfg), Some(ref t) if format!("{:?}", t).contains("Skip"));
            let mut vc = valclasses.clone();
            vc.retain(|c| c.contains("backslash") || c.contains("control") || c.contains("datetime") || c.contains("list") || c.contains("non-finite"));
            vc.sort();
            vc.dedup();
            let anno_set = data.iter().any(|(s, ..)| s == CONTEXT_ANNO || s == "http://www.w3.org/ns/anno/");
            let cause = if has_key_or_data_member {
                "key-or-data-selector-inside-complex-target".to_string()
            } else if !vc.is_empty() {
                format!("value:{}", if vc[0].starts_with("list") { "list" } else { vc[0].as_str() })
            } else if idclass == "backslash" || idclass == "control-character" {
                format!("id:{}", idclass)
            } else if anno_set {
                "anno-namespace-predicate".to_string()
            } else {
                format!("ids:{}/values:{}", idclass, { let mut v = valclasses.clone(); v.sort(); v.dedup(); v.join(",") })
            };
            rep.violation(format!("C17/ill-formed-json/{}", cause), detail(json!({"parse_error": e.to_string()})));
            return;
        }
    };
    rep.distinct(&format!("wellformed/{}/{}/{}", ma.target.kind(), idclass, cfgname));
    if rep.samples.len() < 3 && !data.is_empty() {
        rep.sample(json!({"annotation": m.ann_name(ah), "config": cfgname, "exported": out, "parsed_target": parsed["target"], "parsed_body": parsed["body"]}));
    }

    // 2. target
    rep.eval();
    match expected_target(m, &ma.target, cfg) {
        None => rep.count("target-unsettled(annotation-without-id)"),
        Some(exp) => {
            let exp = strip_skips(&exp);
            let tj = &parsed["target"];
            // with an extra target template the usual target comes first in an array
            let (tj, extra) = match (cfg.extra_target_template.is_some(), tj.as_array()) {
                (true, Some(arr)) if !arr.is_empty() => (&arr[0], arr.get(1)),
                _ => (tj, None),
            };
            let _ = extra;
            match read_target(tj) {
                None => rep.violation(format!("C17/target/unreadable/{}", ma.target.kind()), detail(json!({"target_json": tj}))),
                Some(got) => {
                    let got = strip_skips(&got);
                    rep.distinct(&format!("target/{}/{}", ma.target.kind(), cfgname));
                    if got != exp {
                        let (mut a, mut b) = (Vec::new(), Vec::new());
                        texts_of(&got, &mut a);
                        texts_of(&exp, &mut b);
                        let kind = if a == b {
                            "structure"
                        } else if a.len() != b.len() {
                            "number-of-text-selections"
                        } else if a.iter().zip(&b).all(|(x, y)| x.1 == y.1 && x.2 == y.2) {
                            "resource-iri"
                        } else {
                            "offsets"
                        };
                        rep.violation(format!("C17/target/differs/{}/{}/ids:{}", kind, ma.target.kind(), idclass), detail(json!({"got": format!("{:?}", got), "expected": format!("{:?}", exp)})));
                    }
                }
            }
        }
    }

    // 3. body: every data value with the same content and JSON type
    let anno_ns = |s: &str| s == CONTEXT_ANNO || s == "http://www.w3.org/ns/anno/";
    for (set, key, value) in &data {
        let same_pred = data.iter().filter(|(s, k, _)| s == set && k == key).count();
        if same_pred > 1 {
            rep.count("body-unsettled(several-values-for-one-predicate)");
            continue;
        }
        rep.eval();
        let (holder, pred): (&Value, String) = if anno_ns(set) {
            if ["generated", "generator", "motivation", "created", "creator"].contains(&key.as_str()) {
                (&parsed, key.clone())
            } else {
                (&parsed["body"], key.clone())
            }
        } else {
            // the predicate is whichever member of the body expands, through the exported @context, to the IRI of the key
            let iri = into_iri(key, &into_iri(set, &cfg.default_set_iri));
            let found = parsed["body"].as_object().and_then(|o| o.keys().find(|k| expand_compact(k, &parsed["@context"]) == iri).cloned());
            if found.is_some() && !cfg.context_namespaces.is_empty() {
                rep.distinct(&format!("body-predicate-expanded/{}", cfgname));
            }
            (&parsed["body"], found.unwrap_or(iri))
        };
        rep.distinct(&format!("body/{}", valueclass(value)));
        match holder.get(&pred) {
            None => rep.violation(format!("C17/body/value-missing/{}/key:{}", { let c = valueclass(value); if c.starts_with("list") { "list".to_string() } else { c } }, charclass(key)), detail(json!({"predicate": pred, "body": parsed["body"]}))),
            Some(j) => {
                if !value_matches(value, j) {
                    rep.violation(format!("C17/body/value-differs/{}", { let c = valueclass(value); if c.starts_with("list") { "list".to_string() } else { c } }), detail(json!({"predicate": pred, "got": j, "expected": value_json(value)})));
                }
            }
        }
    }
}

pub fn run(p: &Params, rep: &mut Report) {
    rep.rule = "stores reached by seeded histories of the C01 generator with hostile identifiers (quotes, backslashes, control characters, non-BMP) and hostile values (strings with the same, numbers incl. extremes, booleans, null, nested lists, datetimes), all selector kinds; every annotation is exported with to_webannotation under a seeded configuration (IRI prefixes, extra context, namespaces, extra target template; auto_generated off), parsed with serde_json, and its target and body compared with the shadow model. distinct_nontrivial = distinct (selector kind, id character class, configuration) exports that parsed, and value classes compared".into();
    rep.assumptions = vec![
        "an empty export means the annotation is not accepted (key / data selector as target)".into(),
        "id -> IRI: IRIs are kept, other ids get the configured prefix and space, tab, newline, quote become '-' (the documented transformation)".into(),
        "targets pointing at annotations without public id, and several data values for one predicate, are not judged".into(),
    ];
    let total: u64 = if p.thorough { 6000 } else { 3000 };
    for k in p.cases(total) {
        rep.current_case = p.case_coord(k);
        rep.cases += 1;
        let mut rng = Rng::new(p.seed, "c17", k);
        let mut cfg = GenCfg::default();
        cfg.hostile_ids = rng.chance(1, 2);
        cfg.hostile_values = true;
        cfg.keydata_in_complex = rng.chance(1, 3);
        cfg.removals = rng.chance(1, 3);
        cfg.max_anns = 12;
        let nops = rng.range(6, if p.thorough { 30 } else { 22 }) as usize;
        let mut h = random_history(&mut rng, cfg, nops, 100, false);
        // a few annotations with W3C predicates
        if let Some(r) = h.model.resources.values().next().cloned() {
            for (key, value) in [("motivation", DataValue::String("tagging".into())), ("creator", DataValue::String("https://example.org/me".into())), ("created", DataValue::String("2024-01-02T03:04:05Z".into())), ("purpose", DataValue::String("x".into()))] {
                if rng.chance(1, 2) {
                    let op = Op::Annotate(AnnReq { id: Some(format!("w3c-{}", key)), target: Some(SelReq::Res(Ref::Id(r.id.clone()))), data: vec![DataReq { set: Ref::Id(CONTEXT_ANNO.into()), id: Ref::None, key: Ref::Id(key.into()), value }, DataReq { set: Ref::Id("plain".into()), id: Ref::None, key: Ref::Id("k".into()), value: DataValue::Int(1) }] });
                    let _ = h.step(&op);
                }
            }
        }
        // several annotation-level predicates of the Web Annotation namespace on one annotation, in any order, mixed with body predicates
        if let Some(r) = h.model.resources.values().next().cloned() {
            if rng.chance(1, 2) {
                let ns = *rng.pick(&[CONTEXT_ANNO, "http://www.w3.org/ns/anno/"]);
                let mut props: Vec<(&str, DataValue)> = vec![
                    ("motivation", DataValue::String("tagging".into())),
                    ("creator", DataValue::String(rng.pick(&["https://example.org/me", "me \"quoted\""]).to_string())),
                    ("created", DataValue::String("2024-01-02T03:04:05Z".into())),
                    ("generator", DataValue::String(rng.pick(&["mytool", "https://example.org/tool"]).to_string())),
                    ("generated", DataValue::String("2024-01-02T03:04:06Z".into())),
                    ("purpose", DataValue::String("x".into())),
                    ("value", DataValue::Int(3)),
                ];
                rng.shuffle(&mut props);
                let n = rng.range(2, props.len() as i64) as usize;
                let mut data: Vec<DataReq> = props.into_iter().take(n).map(|(k, value)| DataReq { set: Ref::Id(ns.into()), id: Ref::None, key: Ref::Id(k.into()), value }).collect();
                if rng.chance(1, 2) {
                    data.insert(rng.below(data.len() + 1), DataReq { set: Ref::Id("plain".into()), id: Ref::None, key: Ref::Id("k".into()), value: DataValue::Int(1) });
                }
                let op = Op::Annotate(AnnReq { id: Some("w3c-several".into()), target: Some(SelReq::Res(Ref::Id(r.id.clone()))), data });
                let _ = h.step(&op);
            }
        }
        // values whose JSON type is easy to get wrong: IRI-like strings (exported as {"id": ..}), near-IRIs, and short lists of them
        if let Some(r) = h.model.resources.values().next().cloned() {
            let s = |x: &str| DataValue::String(x.into());
            let pool: Vec<DataValue> = vec![
                s("https://example.org/x"), s("urn:isbn:123"), s("_:b0"), s("file:///tmp/x"), s("http://with space"), s("mailto:x"), s("https:"), s(":"), s("http"), s("_s1:w2"), s("file1.txt:intro"), s("httpx:y"), s("urnal:1"), s("filename:hello.txt"),
                DataValue::List(vec![s("https://example.org/x")]),
                DataValue::List(vec![DataValue::List(vec![s("urn:isbn:123")])]),
                DataValue::List(vec![s("https://example.org/x"), s("x")]),
                DataValue::List(vec![s("x")]),
                DataValue::List(vec![DataValue::Int(7)]),
                DataValue::List(vec![DataValue::Bool(true)]),
                DataValue::List(vec![DataValue::Null]),
                DataValue::List(vec![DataValue::Float(0.5)]),
                DataValue::List(vec![]),
                DataValue::List(vec![crate::gen::gen_datetime(&mut rng)]),
            ];
            for n in 0..rng.below(4) {
                let value = rng.pick(&pool).clone();
                // identifiers that start like a scheme without being one get the configured prefix like any other id
                let id = if rng.chance(1, 3) { format!("{}{}", rng.pick(&["_s1:w", "file1.txt:p", "httpx:", "urnal:", "typed-"]), n) } else { format!("typed-{}", n) };
                let op = Op::Annotate(AnnReq { id: Some(id), target: Some(SelReq::Res(Ref::Id(r.id.clone()))), data: vec![DataReq { set: Ref::Id("plain".into()), id: Ref::None, key: Ref::Id(format!("t{}", n)), value }] });
                let _ = h.step(&op);
            }
        }
        let (wcfg, cfgname) = gen_config(&mut rng);
        let handles: Vec<usize> = h.model.anns.keys().cloned().collect();
        for ah in handles {
            check_annotation(rep, &h, ah, &wcfg, &cfgname);
        }
    }
}
