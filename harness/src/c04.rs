//! C04 — offsets resolve to exactly the addressed codepoints, or are rejected.
//! Exhaustive over short texts x every cursor pair in [-len-2, len+2]^2 x 4 alignments, for resource offsets
//! (annotate + FindText::textselection) and annotation-relative offsets (annotate + FindText on selections);
//! random nesting to depth 3; extreme cursors.

use crate::model::{resolve_off, Cur, Off};
use crate::util::*;
use serde_json::json;
use stam::*;

fn cursor(c: Cur) -> Cursor {
    match c {
        Cur::B(x) => Cursor::BeginAligned(x),
        Cur::E(x) => Cursor::EndAligned(x),
    }
}

fn offset(o: &Off) -> Offset {
    Offset::new(cursor(o.begin), cursor(o.end))
}

fn cursors(len: usize) -> Vec<Cur> {
    let mut v = Vec::new();
    for x in 0..=len + 2 {
        v.push(Cur::B(x));
    }
    for x in -(len as isize + 2)..=2 {
        v.push(Cur::E(x));
    }
    v
}

fn texts(maxlen: usize, alphabet: &[char]) -> Vec<String> {
    let mut out = vec![String::new()];
    let mut frontier = vec![String::new()];
    for _ in 0..maxlen {
        let mut next = Vec::new();
        for t in &frontier {
            for c in alphabet {
                let mut s = t.clone();
                s.push(*c);
                next.push(s);
            }
        }
        out.extend(next.iter().cloned());
        frontier = next;
    }
    out
}

fn offclass(o: &Off) -> String {
    o.mode().to_string()
}

/// what a reported offset must look like: well-formed, and resolving (on the addressed text of length `len`) to (b,e)
fn check_reported(rep: &mut Report, what: &str, mode: OffsetMode, reported: Option<Offset>, len: usize, want: (usize, usize), ctx: &serde_json::Value) {
    rep.eval();
    let Some(off) = reported else {
        rep.violation(format!("C04/report/{}/{:?}/no-offset-reported", what, mode), ctx.clone());
        return;
    };
    let wellformed = |c: &Cursor| match c {
        Cursor::EndAligned(x) => *x <= 0,
        _ => true,
    };
    if !wellformed(&off.begin) || !wellformed(&off.end) {
        rep.violation(
            format!("C04/report/{}/{:?}/positive-endaligned-cursor", what, mode),
            json!({"reported": format!("{:?}", off), "want_range": want, "len": len, "ctx": ctx}),
        );
        return;
    }
    let expected_mode: OffsetMode = (&off).into();
    if expected_mode != mode {
        rep.violation(
            format!("C04/report/{}/{:?}/wrong-alignment", what, mode),
            json!({"reported": format!("{:?}", off), "ctx": ctx}),
        );
    }
    // the written form of the reported cursors (what CSV and STAMQL carry) reads back as the same cursors
    for c in [&off.begin, &off.end] {
        let text = c.to_string();
        match guard(|| Cursor::try_from(text.as_str())) {
            Ok(Ok(back)) if back == *c => {}
            other => rep.violation(
                format!("C04/report/{}/{:?}/written-cursor-reads-back-differently/{}", what, mode, if matches!(c, Cursor::EndAligned(0)) { "end-aligned-zero" } else { "other" }),
                json!({"cursor": format!("{:?}", c), "written": text, "read_back": format!("{:?}", other.map(|r| r.map_err(|e| e.to_string())).map_err(|p| p.msg)), "ctx": ctx}),
            ),
        }
    }
    let cur = |c: &Cursor| match c {
        Cursor::BeginAligned(x) => Cur::B(*x),
        Cursor::EndAligned(x) => Cur::E(*x),
    };
    let o = Off { begin: cur(&off.begin), end: cur(&off.end) };
    match resolve_off(len, &o) {
        Ok(r) if r == want => {}
        other => rep.violation(
            format!("C04/report/{}/{:?}/re-resolves-elsewhere", what, mode),
            json!({"reported": format!("{:?}", off), "resolves_to": format!("{:?}", other), "want_range": want, "len": len, "ctx": ctx}),
        ),
    }
}

const MODES: [OffsetMode; 4] = [OffsetMode::BeginBegin, OffsetMode::BeginEnd, OffsetMode::EndBegin, OffsetMode::EndEnd];

fn resource_case(rep: &mut Report, text: &str) {
    let cs = cursors(text.chars().count());
    resource_case_with(rep, text, Config::default().with_debug(false), cs);
}

/// texts that are longer than the milestone interval (the default one of 100 characters, or a small configured one): cursors at
/// and around the milestones, the ends, and random ones, in both alignments
fn milestone_case(rep: &mut Report, rng: &mut Rng) {
    let (interval, len) = if rng.chance(1, 2) { (100usize, rng.range(101, 230) as usize) } else { (rng.range(1, 5) as usize, rng.range(6, 24) as usize) };
    let alphabet = ['a', 'b', ' ', '\u{e9}', '\u{65e5}', '\u{1f600}'];
    // multi-byte characters early on, so that byte and character positions differ at every milestone
    let text: String = (0..len).map(|i| if i < 3 && rng.chance(2, 3) { alphabet[3 + rng.below(3)] } else { alphabet[rng.below(alphabet.len())] }).collect();
    let mut points: Vec<usize> = vec![0, 1, len.saturating_sub(1), len, len + 1];
    let mut m = interval;
    while m <= len && points.len() < 14 {
        points.extend([m.saturating_sub(1), m, m + 1]);
        m += interval * (1 + rng.below(2));
    }
    for _ in 0..3 {
        points.push(rng.below(len + 1));
    }
    points.sort();
    points.dedup();
    let mut cs: Vec<Cur> = Vec::new();
    for x in points {
        cs.push(Cur::B(x));
        cs.push(Cur::E(x as isize - len as isize));
    }
    rep.distinct(&format!("milestones/interval:{}/len:{}", if interval == 100 { "default" } else { "small" }, if len > 100 { ">100" } else { "<=24" }));
    let cfg = if interval == 100 { Config::default().with_debug(false) } else { Config::default().with_debug(false).with_milestone_interval(interval) };
    resource_case_with(rep, &text, cfg, cs);
}

fn resource_case_with(rep: &mut Report, text: &str, cfg: Config, cs: Vec<Cur>) {
    let chars: Vec<char> = text.chars().collect();
    let len = chars.len();
    let mut store = AnnotationStore::new(cfg).with_id("c04");
    store.add_resource(TextResourceBuilder::new().with_id("r").with_text(text)).expect("resource");
    let mut n = 0usize;
    for b in &cs {
        for e in &cs {
            let off = Off { begin: *b, end: *e };
            let want = resolve_off(len, &off);
            let ctx = json!({"text": text, "offset": off.to_json(), "path": "resource"});
            n += 1;
            // path A: annotate with a TextSelector
            let known_before = store.resource("r").map(|r| r.textselections_len()).unwrap_or(0);
            rep.eval();
            let id = format!("a{}", n);
            let r = guard(|| store.annotate(AnnotationBuilder::new().with_id(id.clone()).with_target(SelectorBuilder::textselector("r", offset(&off)))));
            match (&r, &want) {
                (Err(p), _) => rep.violation(
                    format!("C04/annotate/TextSelector/panic/{}/{}/{}", offclass(&off), want.err().unwrap_or("valid"), p.class()),
                    json!({"panic": p.msg, "at": p.loc, "ctx": ctx}),
                ),
                (Ok(Ok(_)), Err(why)) => {
                    rep.violation(format!("C04/annotate/TextSelector/accepts-invalid/{}/{}", offclass(&off), why), ctx.clone());
                }
                (Ok(Err(e)), Ok(_)) => {
                    rep.violation(
                        format!("C04/annotate/TextSelector/rejects-valid/{}", offclass(&off)),
                        json!({"error": format!("{}", e), "ctx": ctx}),
                    );
                }
                (Ok(Err(_)), Err(why)) => {
                    rep.distinct(&format!("res/reject/{}/{}", offclass(&off), why));
                    // a refusal leaves no text selection behind
                    let known_after = store.resource("r").map(|r| r.textselections_len()).unwrap_or(0);
                    if known_after != known_before {
                        rep.violation(format!("C04/annotate/TextSelector/refusal-leaves-textselection/{}/{}", offclass(&off), why), ctx.clone());
                    }
                }
                (Ok(Ok(_)), Ok((wb, we))) => {
                    rep.distinct(&format!("res/accept/{}/{}", offclass(&off), if wb == we { "zero" } else if *we == len { "to-end" } else { "inner" }));
                    let a = store.annotation(id.as_str()).expect("annotation just added");
                    let expected: String = chars[*wb..*we].iter().collect();
                    let got = guard(|| (a.text_join(""), a.text_simple().map(|s| s.to_string()), a.textselections().map(|t| (t.begin(), t.end())).collect::<Vec<_>>()));
                    match got {
                        Err(p) => rep.violation(format!("C04/text/TextSelector/panic/{}", p.class()), json!({"panic": p.msg, "ctx": ctx})),
                        Ok((join, simple, ranges)) => {
                            if join != expected || simple.as_deref() != Some(expected.as_str()) || ranges != vec![(*wb, *we)] {
                                rep.violation(
                                    format!("C04/text/TextSelector/wrong-codepoints/{}", offclass(&off)),
                                    json!({"text_join": join, "text_simple": simple, "ranges": ranges, "want_text": expected, "want_range": [wb, we], "ctx": ctx}),
                                );
                            }
                        }
                    }
                    for m in MODES {
                        let reported = guard(|| a.as_ref().target().offset_with_mode(&store, Some(m)));
                        match reported {
                            Ok(r) => check_reported(rep, "TextSelector", m, r, len, (*wb, *we), &ctx),
                            Err(p) => rep.violation(format!("C04/report/TextSelector/{:?}/panic/{}", m, p.class()), json!({"panic": p.msg, "ctx": ctx})),
                        }
                    }
                    // the default report carries the alignment the annotation was built with
                    let requested: OffsetMode = (&offset(&off)).into();
                    if let Ok(Some(o)) = guard(|| a.as_ref().target().offset(&store)) {
                        rep.eval();
                        let m: OffsetMode = (&o).into();
                        if m != requested {
                            rep.violation(format!("C04/report/TextSelector/default-alignment-changed/{:?}", requested), json!({"reported": format!("{:?}", o), "ctx": ctx}));
                        }
                    }
                }
            }
            // path B: FindText::textselection on the resource must agree
            rep.eval();
            let res = store.resource("r").expect("resource");
            match guard(|| res.textselection(&offset(&off)).map(|t| (t.begin(), t.end(), t.text().to_string()))) {
                Err(p) => rep.violation(
                    format!("C04/textselection/resource/panic/{}/{}/{}", offclass(&off), want.err().unwrap_or("valid"), p.class()),
                    json!({"panic": p.msg, "at": p.loc, "ctx": ctx}),
                ),
                Ok(Ok((gb, ge, gt))) => match want {
                    Err(why) => rep.violation(format!("C04/textselection/resource/accepts-invalid/{}/{}", offclass(&off), why), json!({"got": [gb, ge], "ctx": ctx})),
                    Ok((wb, we)) => {
                        let expected: String = chars[wb..we].iter().collect();
                        if (gb, ge) != (wb, we) || gt != expected {
                            rep.violation(format!("C04/textselection/resource/wrong-range/{}", offclass(&off)), json!({"got": [gb, ge], "want": [wb, we], "text": gt, "ctx": ctx}));
                        }
                    }
                },
                Ok(Err(e)) => {
                    if want.is_ok() {
                        rep.violation(format!("C04/textselection/resource/rejects-valid/{}", offclass(&off)), json!({"error": format!("{}", e), "ctx": ctx}));
                    }
                }
            }
        }
    }
}

fn relative_case(rep: &mut Report, text: &str, pb: usize, pe: usize, parent_mode: usize) {
    let chars: Vec<char> = text.chars().collect();
    let len = chars.len();
    let plen = pe - pb;
    let mut store = AnnotationStore::new(Config::default().with_debug(false)).with_id("c04");
    store.add_resource(TextResourceBuilder::new().with_id("r").with_text(text)).expect("resource");
    let poff = crate::gen::offset_in_mode(len, pb, pe, parent_mode);
    if store
        .annotate(AnnotationBuilder::new().with_id("P").with_target(SelectorBuilder::textselector("r", offset(&poff))))
        .is_err()
    {
        rep.count("relative/parent-refused");
        return;
    }
    let cs = cursors(plen);
    let mut n = 0;
    for b in &cs {
        for e in &cs {
            let off = Off { begin: *b, end: *e };
            let want = resolve_off(plen, &off);
            let ctx = json!({"text": text, "parent": [pb, pe], "offset": off.to_json(), "path": "relative"});
            n += 1;
            let id = format!("c{}", n);
            rep.eval();
            let known_before = store.resource("r").map(|r| r.textselections_len()).unwrap_or(0);
            let r = guard(|| store.annotate(AnnotationBuilder::new().with_id(id.clone()).with_target(SelectorBuilder::annotationselector("P", Some(offset(&off))))));
            match (&r, &want) {
                (Err(p), _) => rep.violation(
                    format!("C04/annotate/AnnotationSelector/panic/{}/{}/{}", offclass(&off), want.err().unwrap_or("valid"), p.class()),
                    json!({"panic": p.msg, "at": p.loc, "ctx": ctx}),
                ),
                (Ok(Ok(_)), Err(why)) => rep.violation(format!("C04/annotate/AnnotationSelector/accepts-invalid/{}/{}", offclass(&off), why), ctx.clone()),
                (Ok(Err(e)), Ok(_)) => rep.violation(
                    format!("C04/annotate/AnnotationSelector/rejects-valid/{}", offclass(&off)),
                    json!({"error": format!("{}", e), "ctx": ctx}),
                ),
                (Ok(Err(_)), Err(why)) => {
                    rep.distinct(&format!("rel/reject/{}/{}", offclass(&off), why));
                    let known_after = store.resource("r").map(|r| r.textselections_len()).unwrap_or(0);
                    if known_after != known_before {
                        rep.violation(format!("C04/annotate/AnnotationSelector/refusal-leaves-textselection/{}/{}", offclass(&off), why), ctx.clone());
                    }
                }
                (Ok(Ok(_)), Ok((wb, we))) => {
                    rep.distinct(&format!("rel/accept/{}/{}", offclass(&off), if wb == we { "zero" } else if *we == plen { "to-end" } else { "inner" }));
                    let a = store.annotation(id.as_str()).expect("annotation just added");
                    let (ab, ae) = (pb + wb, pb + we);
                    let expected: String = chars[ab..ae].iter().collect();
                    match guard(|| (a.text_join(""), a.textselections().map(|t| (t.begin(), t.end())).collect::<Vec<_>>())) {
                        Err(p) => rep.violation(format!("C04/text/AnnotationSelector/panic/{}", p.class()), json!({"panic": p.msg, "ctx": ctx})),
                        Ok((join, ranges)) => {
                            if join != expected || ranges != vec![(ab, ae)] {
                                rep.violation(
                                    format!("C04/text/AnnotationSelector/wrong-codepoints/{}", offclass(&off)),
                                    json!({"text_join": join, "ranges": ranges, "want_text": expected, "want_range": [ab, ae], "ctx": ctx}),
                                );
                            }
                        }
                    }
                    for m in MODES {
                        match guard(|| a.as_ref().target().offset_with_mode(&store, Some(m))) {
                            Ok(r) => check_reported(rep, "AnnotationSelector", m, r, plen, (*wb, *we), &ctx),
                            Err(p) => rep.violation(format!("C04/report/AnnotationSelector/{:?}/panic/{}", m, p.class()), json!({"panic": p.msg, "ctx": ctx})),
                        }
                    }
                }
            }
            // FindText::textselection on the parent's selection must agree (absolute coordinates in the result)
            rep.eval();
            let parent = store.annotation("P").expect("parent");
            let pts = parent.textselections().next().expect("parent text selection");
            match guard(|| pts.textselection(&offset(&off)).map(|t| (t.begin(), t.end()))) {
                Err(p) => rep.violation(
                    format!("C04/textselection/selection/panic/{}/{}/{}", offclass(&off), want.err().unwrap_or("valid"), p.class()),
                    json!({"panic": p.msg, "at": p.loc, "ctx": ctx}),
                ),
                Ok(Ok((gb, ge))) => match want {
                    Err(why) => rep.violation(format!("C04/textselection/selection/accepts-invalid/{}/{}", offclass(&off), why), json!({"got": [gb, ge], "ctx": ctx})),
                    Ok((wb, we)) => {
                        if (gb, ge) != (pb + wb, pb + we) {
                            rep.violation(format!("C04/textselection/selection/wrong-range/{}", offclass(&off)), json!({"got": [gb, ge], "want": [pb + wb, pb + we], "ctx": ctx}));
                        }
                    }
                },
                Ok(Err(e)) => {
                    if want.is_ok() {
                        rep.violation(format!("C04/textselection/selection/rejects-valid/{}", offclass(&off)), json!({"error": format!("{}", e), "ctx": ctx}));
                    }
                }
            }
        }
    }
}

fn nested_case(rep: &mut Report, rng: &mut Rng) {
    // depth 2-3 chains of relative offsets, all four alignments, valid by construction
    let text = crate::gen::gen_text(rng, 6, 30);
    let chars: Vec<char> = text.chars().collect();
    let mut store = AnnotationStore::new(Config::default().with_debug(false)).with_id("c04");
    store.add_resource(TextResourceBuilder::new().with_id("r").with_text(text.clone())).expect("resource");
    let (mut b, mut e) = crate::gen::gen_range(rng, chars.len());
    let off = crate::gen::offset_in_mode(chars.len(), b, e, rng.below(4));
    if store.annotate(AnnotationBuilder::new().with_id("n0").with_target(SelectorBuilder::textselector("r", offset(&off)))).is_err() {
        return;
    }
    let depth = rng.range(2, 3) as usize;
    for d in 1..=depth {
        let plen = e - b;
        let (rb, re) = crate::gen::gen_range(rng, plen);
        let roff = crate::gen::offset_in_mode(plen, rb, re, rng.below(4));
        let id = format!("n{}", d);
        let parent = format!("n{}", d - 1);
        rep.eval();
        let ctx = json!({"text": text, "depth": d, "parent_abs": [b, e], "offset": roff.to_json(), "path": "nested"});
        match guard(|| store.annotate(AnnotationBuilder::new().with_id(id.clone()).with_target(SelectorBuilder::annotationselector(parent.as_str(), Some(offset(&roff)))))) {
            Ok(Ok(_)) => {
                let (nb, ne) = (b + rb, b + rb + (re - rb));
                let a = store.annotation(id.as_str()).expect("annotation");
                let expected: String = chars[nb..ne].iter().collect();
                let join = a.text_join("");
                rep.distinct(&format!("nested/depth{}/{}", d, offclass(&roff)));
                if join != expected {
                    rep.violation(format!("C04/text/nested/wrong-codepoints/depth{}", d), json!({"got": join, "want": expected, "ctx": ctx}));
                }
                for m in MODES {
                    if let Ok(r) = guard(|| a.as_ref().target().offset_with_mode(&store, Some(m))) {
                        check_reported(rep, "nested", m, r, plen, (rb, re), &ctx);
                    }
                }
                b = nb;
                e = ne;
            }
            Ok(Err(err)) => {
                rep.violation(format!("C04/annotate/nested/rejects-valid/depth{}", d), json!({"error": format!("{}", err), "ctx": ctx}));
                return;
            }
            Err(p) => {
                rep.violation(format!("C04/annotate/nested/panic/{}", p.class()), json!({"panic": p.msg, "ctx": ctx}));
                return;
            }
        }
    }
}

/// Two parent annotations with consecutive handles; complex selectors whose two members address the parents' text with every
/// pair of whole / almost-whole relative offsets (the store may fold neighbouring whole members into one internal range: the
/// resolved codepoints of every member must still be exactly the addressed ones).
fn complex_case(rep: &mut Report, rng: &mut Rng) {
    let text = crate::gen::gen_text(rng, 8, 16);
    let chars: Vec<char> = text.chars().collect();
    let n = chars.len();
    let mut store = AnnotationStore::new(Config::default().with_debug(false)).with_id("c04");
    store.add_resource(TextResourceBuilder::new().with_id("r").with_text(text.clone())).expect("resource");
    let cut = rng.range(2, n as i64 - 4) as usize;
    let cut2 = rng.range(cut as i64 + 2, n as i64 - 1).max(cut as i64 + 1) as usize;
    let parents = [(0usize, cut), (cut, cut2), (cut2, n)];
    for (i, (b, e)) in parents.iter().enumerate() {
        if store.annotate(AnnotationBuilder::new().with_id(format!("p{}", i)).with_target(SelectorBuilder::textselector("r", Offset::simple(*b, *e)))).is_err() {
            return;
        }
    }
    let shapes = |len: usize| -> Vec<(Off, (usize, usize))> {
        let l = len as isize;
        let mut v = vec![
            (Off { begin: Cur::B(0), end: Cur::E(0) }, (0, len)),
            (Off { begin: Cur::B(0), end: Cur::B(len) }, (0, len)),
            (Off { begin: Cur::E(-l), end: Cur::E(0) }, (0, len)),
            (Off { begin: Cur::E(-l), end: Cur::B(len) }, (0, len)),
        ];
        if len >= 2 {
            v.push((Off { begin: Cur::B(1), end: Cur::E(0) }, (1, len)));
            v.push((Off { begin: Cur::B(1), end: Cur::B(len) }, (1, len)));
            v.push((Off { begin: Cur::B(0), end: Cur::E(-1) }, (0, len - 1)));
            v.push((Off { begin: Cur::B(0), end: Cur::B(len - 1) }, (0, len - 1)));
            v.push((Off { begin: Cur::E(-l + 1), end: Cur::E(0) }, (1, len)));
        }
        v
    };
    let s0 = shapes(parents[0].1 - parents[0].0);
    let s1 = shapes(parents[1].1 - parents[1].0);
    let s2 = shapes(parents[2].1 - parents[2].0);
    let mut k = 0;
    // three neighbours: two whole members and one of every shape, in each position (a range that exists already may be extended)
    for pos in 0..3 {
        let list = [&s0, &s1, &s2][pos];
        for (o, r) in list.iter() {
            for kind in 0..3 {
                k += 1;
                rep.eval();
                let whole = Off { begin: Cur::B(0), end: Cur::E(0) };
                let offs: Vec<Off> = (0..3).map(|i| if i == pos { o.clone() } else { whole.clone() }).collect();
                let want: Vec<(usize, usize)> = (0..3).map(|i| if i == pos { (parents[i].0 + r.0, parents[i].0 + r.1) } else { parents[i] }).collect();
                let members: Vec<SelectorBuilder> = (0..3).map(|i| SelectorBuilder::annotationselector(format!("p{}", i), Some(offset(&offs[i])))).collect();
                let (name, target) = match kind {
                    0 => ("Directional", SelectorBuilder::DirectionalSelector(members)),
                    1 => ("Composite", SelectorBuilder::CompositeSelector(members)),
                    _ => ("Multi", SelectorBuilder::MultiSelector(members)),
                };
                let id = format!("t{}", k);
                let ctx = json!({"text": text, "parents": parents, "offsets": offs.iter().map(|x| x.to_json()).collect::<Vec<_>>(), "selector": name, "path": "complex3"});
                match guard(|| store.annotate(AnnotationBuilder::new().with_id(id.clone()).with_target(target))) {
                    Ok(Ok(_)) => {
                        let a = store.annotation(id.as_str()).expect("annotation");
                        let got: Vec<(usize, usize)> = a.textselections().map(|t| (t.begin(), t.end())).collect();
                        rep.distinct(&format!("complex3/{}/pos{}/{}", name, pos, offclass(o)));
                        if got != want {
                            rep.violation(format!("C04/text/complex3/{}/wrong-ranges/odd-member-at-{}", name, pos), json!({"got": got, "want": want, "ctx": ctx}));
                        }
                    }
                    Ok(Err(err)) => rep.violation(format!("C04/annotate/complex3/{}/rejects-valid", name), json!({"error": format!("{}", err), "ctx": ctx})),
                    Err(p) => rep.violation(format!("C04/annotate/complex3/{}/panic/{}", name, p.class()), json!({"panic": p.msg, "ctx": ctx})),
                }
            }
        }
    }
    for (o0, r0) in &s0 {
        for (o1, r1) in &s1 {
            for kind in 0..3 {
                k += 1;
                rep.eval();
                let members = vec![SelectorBuilder::annotationselector("p0", Some(offset(o0))), SelectorBuilder::annotationselector("p1", Some(offset(o1)))];
                let (name, target) = match kind {
                    0 => ("Directional", SelectorBuilder::DirectionalSelector(members)),
                    1 => ("Composite", SelectorBuilder::CompositeSelector(members)),
                    _ => ("Multi", SelectorBuilder::MultiSelector(members)),
                };
                let id = format!("c{}", k);
                let ctx = json!({"text": text, "parents": parents, "offsets": [o0.to_json(), o1.to_json()], "selector": name, "path": "complex"});
                match guard(|| store.annotate(AnnotationBuilder::new().with_id(id.clone()).with_target(target))) {
                    Ok(Ok(_)) => {
                        let a = store.annotation(id.as_str()).expect("annotation");
                        let want = vec![(parents[0].0 + r0.0, parents[0].0 + r0.1), (parents[1].0 + r1.0, parents[1].0 + r1.1)];
                        let got: Vec<(usize, usize)> = a.textselections().map(|t| (t.begin(), t.end())).collect();
                        rep.distinct(&format!("complex/{}/{}+{}", name, offclass(o0), offclass(o1)));
                        if got != want {
                            let whole = |r: &(usize, usize), p: &(usize, usize)| r.0 == 0 && r.1 == p.1 - p.0;
                            rep.violation(
                                format!("C04/text/complex/{}/wrong-ranges/{}+{}", name, if whole(r0, &parents[0]) { "whole" } else { "part" }, if whole(r1, &parents[1]) { "whole" } else { "part" }),
                                json!({"got": got, "want": want, "ctx": ctx}),
                            );
                        }
                    }
                    Ok(Err(err)) => rep.violation(format!("C04/annotate/complex/{}/rejects-valid", name), json!({"error": format!("{}", err), "ctx": ctx})),
                    Err(p) => rep.violation(format!("C04/annotate/complex/{}/panic/{}", name, p.class()), json!({"panic": p.msg, "ctx": ctx})),
                }
            }
        }
    }
}

fn extremes(rep: &mut Report) {
    let mut store = AnnotationStore::new(Config::default().with_debug(false)).with_id("c04");
    store.add_resource(TextResourceBuilder::new().with_id("r").with_text("aé😀b")).expect("resource");
    store
        .annotate(AnnotationBuilder::new().with_id("P").with_target(SelectorBuilder::textselector("r", Offset::simple(1, 3))))
        .expect("parent");
    let xs = [Cursor::BeginAligned(usize::MAX), Cursor::BeginAligned(usize::MAX / 2), Cursor::EndAligned(isize::MIN), Cursor::EndAligned(isize::MIN + 1), Cursor::EndAligned(isize::MAX), Cursor::BeginAligned(0), Cursor::EndAligned(0)];
    let mut n = 0;
    for b in xs {
        for e in xs {
            let off = Offset::new(b, e);
            let valid = matches!(
                (b, e),
                (Cursor::BeginAligned(0), Cursor::EndAligned(0)) | (Cursor::BeginAligned(0), Cursor::BeginAligned(0)) | (Cursor::EndAligned(0), Cursor::EndAligned(0))
            );
            let cls = format!("{:?}", off).chars().filter(|c| c.is_alphabetic() || *c == '-').collect::<String>();
            for (what, builder) in [
                ("TextSelector", SelectorBuilder::textselector("r", off.clone())),
                ("AnnotationSelector", SelectorBuilder::annotationselector("P", Some(off.clone()))),
            ] {
                n += 1;
                rep.eval();
                rep.distinct(&format!("extreme/{}/{}", what, cls));
                match guard(|| store.annotate(AnnotationBuilder::new().with_id(format!("x{}", n)).with_target(builder))) {
                    Err(p) => rep.violation(format!("C04/annotate/{}/panic/extreme/{}", what, p.class()), json!({"offset": format!("{:?}", off), "panic": p.msg, "at": p.loc})),
                    Ok(Ok(_)) if !valid => rep.violation(format!("C04/annotate/{}/accepts-invalid/extreme", what), json!({"offset": format!("{:?}", off)})),
                    _ => {}
                }
            }
            let res = store.resource("r").expect("resource");
            rep.eval();
            if let Err(p) = guard(|| res.textselection(&off).is_ok()) {
                rep.violation(format!("C04/textselection/resource/panic/extreme/{}", p.class()), json!({"offset": format!("{:?}", off), "panic": p.msg, "at": p.loc}));
            }
        }
    }
}

pub fn run(p: &Params, rep: &mut Report) {
    rep.rule = "exhaustive: every text of length 0..=L over {a, é(2 bytes), 😀(4 bytes)} x every pair of cursors of either alignment with values in [-len-2, len+2] -> annotate(TextSelector) and FindText::textselection on the resource; for texts of length 4-5 every parent range x every relative cursor pair -> annotate(AnnotationSelector+offset) and FindText::textselection on the parent's selection; plus texts longer than the milestone interval (101-230 characters with the default interval, 6-24 with an interval of 1-5) with cursors at and around the milestones; plus random chains of depth 2-3, complex selectors over two neighbouring parents with every pair of whole / almost-whole relative offsets (9 x 9 shapes x 3 selector kinds), and extreme cursors (isize::MIN, usize::MAX). Oracle: arithmetic on Vec<char>; every accepted annotation's text/ranges and its offset reported in all four OffsetModes (well-formed, re-resolving to the same range). distinct_nontrivial = distinct (path, accept|reject, alignment, reason|shape) classes".into();
    rep.assumptions = vec!["BeginAligned(x) -> x, EndAligned(x<=0) -> len+x, anything else invalid; accepted iff 0<=b<=e<=len of the addressed text (property statement)".into()];
    let maxlen = if p.thorough { 5 } else { 4 };
    let alphabet = ['a', 'é', '😀'];
    let ts = texts(maxlen, &alphabet);
    // work units: one per text (resource), plus relative units, plus nested batches
    let mut units: Vec<(u8, usize)> = Vec::new();
    for i in 0..ts.len() {
        units.push((0, i));
    }
    let rel_texts: Vec<&String> = ts.iter().filter(|t| t.chars().count() >= 4).step_by(if p.thorough { 5 } else { 11 }).collect();
    for i in 0..rel_texts.len() {
        units.push((1, i));
    }
    let nested_batches = if p.thorough { 400 } else { 120 };
    for i in 0..nested_batches {
        units.push((2, i));
    }
    for i in 0..(if p.thorough { 60 } else { 16 }) {
        units.push((4, i));
    }
    for i in 0..(if p.thorough { 200 } else { 48 }) {
        units.push((5, i));
    }
    units.push((3, 0));
    for k in p.cases(units.len() as u64) {
        rep.current_case = p.case_coord(k);
        rep.cases += 1;
        let (kind, i) = units[k as usize];
        match kind {
            0 => {
                resource_case(rep, &ts[i]);
                if i % 40 == 7 {
                    rep.sample(json!({"text": ts[i], "cursor_values_per_side": cursors(ts[i].chars().count()).len(), "paths": ["annotate(TextSelector)", "resource.textselection"]}));
                }
            }
            1 => {
                let t = rel_texts[i];
                let len = t.chars().count();
                for pb in 0..=len {
                    for pe in pb..=len {
                        relative_case(rep, t, pb, pe, (pb + pe) % 4);
                    }
                }
                if i == 0 {
                    rep.sample(json!({"text": t, "parents": "every range", "relative_cursor_pairs": "every pair in [-plen-2, plen+2]^2 x 4 alignments"}));
                }
            }
            2 => {
                let mut rng = Rng::new(p.seed, "c04-nested", i as u64);
                for _ in 0..50 {
                    nested_case(rep, &mut rng);
                }
            }
            4 => {
                let mut rng = Rng::new(p.seed, "c04-complex", i as u64);
                complex_case(rep, &mut rng);
            }
            5 => {
                let mut rng = Rng::new(p.seed, "c04-milestones", i as u64);
                milestone_case(rep, &mut rng);
            }
            _ => extremes(rep),
        }
    }
    rep.exhaustive = p.only_case.is_none();
}
