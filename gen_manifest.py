#!/usr/bin/env python3
"""Regenerates MANIFEST.json from the table below (kept as code so that the file stays valid at all times)."""
import json, os, subprocess
ROOT = os.path.dirname(os.path.abspath(__file__))

CHECKS = {
 "C01": dict(
   technique="runtime monitoring: seeded op-histories against the real store, shadow reference model (full-scan reverse lookups) compared after every operation + invariant checker over a hooked read-only dump of all reverse indices, id maps and position indices",
   text="Thousands of short seeded histories of all mutating operations (nine selector kinds, four offset alignments, relative offsets, range-compressed complex selectors, strict/non-strict removals, protect_text) are applied to the real store; after every operation every lookup named in the property is compared with a documentation-derived shadow model that answers by full scan, and the hooked dump is checked for stale/missing/duplicate/unsorted index entries; at the end of every history 15 adaptors on iterators of items (annotations().data(), data().annotations(), keys().annotations(), resources().textselections(), ...) are compared with the merged per-item answers (documented order, no duplicates). Held only on the histories observed.",
   note="Trusted: harness/src/model.rs (written from the documentation), the dump hook (read-only, add-only). Not generated: requests whose outcome the documentation leaves open, an annotation naming the same item twice.",
   ref="5/C01"),
 "C02": dict(
   technique="runtime monitoring: removal-biased seeded histories (by id, by handle, via DELETE queries; strict/non-strict) with return-value oracle, shadow-model cascade (least fixed point) vs full observation and hooked index dump after every removal, plus serialise/query-everything smoke oracles",
   text="Every removal request generated on a store that the model knows must succeed and remove exactly the model's cascade; afterwards the whole store (items, handles, every reverse lookup, the dumped indices incl. dangling forward references) must equal the model, to_json_string must succeed and a SELECT over all annotations must yield exactly the survivors. Held on the histories observed.",
   note="Trusted: the cascade rules of DESIGN.md appendix A; removals of unknown items are not judged; DELETE queries only by plain id.",
   ref="5/C02"),
 "C03": dict(
   technique="runtime monitoring: seeded histories with duplicate-id insertions and removals; after every operation a probe set of ~150 lookup strings per kind (all ids ever used, '!<L><n>' temporary-id syntax, Unicode) is resolved through every getter and compared with the shadow model's id tables; terminal strip-ids / reindex steps judged against the model",
   text="Id resolution is observed for annotations, resources, datasets, substores and per-dataset keys and data after every step of thousands of histories: a live id must resolve to exactly the item carrying it, removed / never-used ids and wrong-kind or dead temporary ids must not resolve, nothing may panic, resolve_*_id must agree with the getters, duplicate-id insertions must be no-ops or refused without changing the store. Held on what was probed; reindex with gaps is a recorded known finding.",
   note="Trusted: model id tables; public ids that look like temporary ids are not generated; non-canonical temporary ids ('!A01', '!a1') are only required not to panic or return an unrelated item.",
   ref="5/C03"),
 "C04": dict(
   technique="runtime oracle monitor: exhaustive enumeration of (short text, cursor pair, alignment) cells for resource and annotation-relative offsets against arithmetic on Vec<char>; accept/reject, selected codepoints and the offset reported in all four OffsetModes are checked on every accepted annotation; panics caught per call",
   text="For every text up to length 4 (5 thorough) over a 1/2/4-byte alphabet and every pair of cursors of either alignment in [-len-2, len+2], annotate(TextSelector) and FindText::textselection must accept exactly the valid ranges and select exactly those codepoints; likewise for every parent range and relative cursor pair through AnnotationSelector offsets and textselection() on selections; reported offsets must be well-formed and re-resolve to the same range in all four modes; random nesting to depth 3 and extreme cursors. Exhaustive within these bounds.",
   note="Trusted: resolve_off() in harness/src/model.rs (C04 definition from the property statement). JSON/CSV serialised offsets are covered by C05/C15.",
   ref="5/C04"),
 "C05": dict(
   technique="runtime monitoring: round-trip differential on stores reached by seeded histories - canonical observation (incl. every reverse lookup) of original vs reloaded store, byte identity of the second write - under pretty/compact inline output and stand-off (@include) resources and datasets",
   text="Final states of seeded histories with removals (gaps), id-less annotations/data, all selector kinds and value types and hostile Unicode ids are written to STAM JSON and read back under six variants (inline pretty and compact, stand-off members, incremental save of stand-off members, one level of sub-stores); the reloaded store must be observationally identical (items, ids or their absence, order, selector kinds, referenced items, ranges and alignment, typed values, reverse lookups) and writing it again must reproduce the first output (all files for stand-off variants). Held on the stores observed.",
   note="Trusted: obs.rs canonical observation; orphan text selections (used by no annotation) are not part of the model and are ignored. Variants: inline pretty/compact, stand-off resources (.txt/.json) and datasets, save - change - save again on stand-off stores, and one level of sub-stores (a store included into a main store that adds items of its own; membership of annotations, resources and datasets per sub-store is compared too).",
   ref="5/C05"),
 "C14": dict(
   technique="runtime monitoring: before/after snapshot oracle around requests that the shadow model says must be refused (canonical observation with handles and every reverse lookup, search answers, hooked dump of all stores and indices), then the corrected request against a twin store replayed without the failure",
   text="On stores reached by seeded histories, up to 10 invalid requests per store from a catalogue of 26 (unknown resource/annotation/dataset/key/data, out-of-range and inverted offsets, complex selector with an invalid last member, nested complex selector (after a valid member, and first or alone), missing target - each combined with data new to the store -, valid target with unknown set/key/data handles after new data, duplicate annotation/resource/dataset/data ids, and an already known target selection - listed after a longer one with the same begin - combined with an unknown data id or as member of a complex selector with an invalid last member) and one batch per store (annotate_from_iter, annotate_from_file with an item that fails while annotating and with an item that is malformed JSON-wise, ADD query with a fixed id, ADD query whose TARGET carries a relative OFFSET that does not fit every row) with the invalid item first, in the middle or last: the snapshot after the refusal must equal the snapshot before, and the corrected request must leave the store equal to a twin that never saw the failure. Held for the faults observed except the recorded findings (annotate() is not atomic).",
   note="Trusted: obs.rs observation, c12::answers, the dump hook. Requests where model and library disagree on refusal are C03/C04's business and are not judged here; with_annotations() (consumes the store) is not exercised.",
   ref="5/C14"),
 "C16": dict(
   technique="runtime oracle monitor with ground truth by construction: texts assembled from shared fragments so that coverage and the expected target pieces of every source are known; checked stage by stage (transpose result, annotate_from_iter, transposed pieces and text, new transposition, transposing back), with a before/after snapshot for refused sources",
   text="2-3 texts built from 1-5 shared fragments (1-4 byte codepoints) with 0-3 codepoints of noise, re-ordered on the other sides; simple and complex transpositions; sources of 1-2 ranges inside a fragment, across adjacent fragments (re-segmentation), partly or wholly outside; source side Auto/ByIndex; with and without source id. A covered source must transpose, its builders must be accepted, the transposed annotation must lie in the other resource with the expected pieces and identical text piece by piece, the new transposition must link sides with identical text, and transposing back must return the original offsets; an uncovered source must be refused and leave the store unchanged. Held on the setups observed.",
   note="Trusted: the construction in harness/src/c16.rs (a source is covered iff every position of it lies inside a fragment of its side). TransposeConfig knobs exercised: source side Auto/ByIndex, pinned ids, allow_simple (simple transposition as output), no_transposition, no_resegmentation. Transpositions within a single resource are not exercised.",
   ref="5/C16"),
 "C17": dict(
   technique="runtime oracle monitor: every annotation of seeded hostile stores is exported with to_webannotation, parsed with serde_json (well-formedness oracle) and its target and body compared with the shadow model (selector structure, resource IRIs, absolute offsets, value content and JSON type)",
   text="Stores from seeded histories with hostile identifiers (quotes, backslashes, control characters, non-BMP) and hostile values (such strings, extreme numbers, booleans, null, nested lists, datetimes), all selector kinds, plus annotations using W3C annotation-level predicates; each annotation is exported under a seeded WebAnnoConfig (IRI prefixes, extra context, namespaces, extra target template) and must parse as one JSON object whose target lists the same resources and offsets (sequence for directional, multiset for composite/multi selectors) and whose body carries every data value with the same content and type. Held on the annotations observed.",
   note="Trusted: serde_json; the id->IRI rule re-stated in harness/src/c17.rs. Not judged: targets that point at annotations without public id, several values for one predicate, key/data selectors nested in complex targets (not generated), non-finite floats (not generated).",
   ref="5/C17"),
 "C18": dict(
   technique="runtime oracle monitor: protect_text in all four modes on stores of seeded histories, verdicts of validate_text per annotation and store-wide; differential against the selected characters before and after seeded edits of the text inside the STAM JSON serialisation",
   text="Stores from seeded histories (all selector kinds, begin- and end-aligned offsets, 1-4 byte text, texts up to 120 codepoints so that the automatic mode takes both branches) are protected in each mode; every text-selecting annotation must validate, also after adding annotations and protecting again (possibly in another mode) and after a save and reload; then 10 (20) substitutions, insertions and deletions placed before, inside, at the edges of and after selections are applied to the serialised text, the store is reloaded and an annotation must be reported invalid exactly when its selected characters changed. Held on the stores and edits observed.",
   note="Trusted: text_join of the stores (C04/C05) as the definition of the selected characters. Edited serialisations that no longer load (offset beyond the shortened text) are counted and skipped; stand-off text files are not edited, only inline text.",
   ref="5/C18"),
 "C19": dict(
   technique="runtime monitoring with process isolation: mutated serialisations are loaded in a child process under RLIMIT_AS / RLIMIT_CPU and a wall-clock watchdog, each input under catch_unwind; the parent attributes signals, exit status and stalls to single inputs; every store a loader returns goes through the dump self-consistency checker (C01-C03), the canonical observation and re-serialisation",
   text="Valid STAM JSON, STAM CSV and CBOR serialisations of stores from seeded histories are mutated (line-wise JSON edits incl. extreme numbers, temporary ids with extreme numbers, @type swaps, rewired references, retyped values, truncation; new annotations grafted from the sub-selectors that occur in the valid serialisation (every combination of selector kinds under Multi/Composite/Directional); store files that @include each other (cycles, self-include, diamond, missing file) loaded from another directory than the current one; CSV cell and list-element edits in manifest, annotation and dataset files; CBOR truncation at every short length, bit flips, length bytes) and loaded through from_str / from_file, AnnotationBuilder::from_json_str, annotate_from_file, AnnotationDataSet::from_file, plus hostile strings for the Cursor / Type / SelectorKind / DataFormat parsers. No input may panic, abort, exceed the CPU limit or stall, and an accepted store must be self-consistent. Held on the inputs observed except two recorded findings.",
   note="Trusted: dumpcheck.rs. The memory bound is the child's RLIMIT_AS (3 GiB): allocations below it that are driven by a number in the input are not noticed. Time proportional to the input is judged on thread CPU time with 2 s + 1 ms/byte per input; a wall-clock stall is inconclusive, never a verdict.",
   ref="5/C19"),
 "C20": dict(
   technique="runtime monitoring with a deterministic scheduler over hooked yield points (depth-first enumeration of the interleavings of two readers up to a budget, seeded sampling of pairs and triples) plus free-running stress with injected yields; oracle: every thread's result equals the result of the same call running alone before and after, and the hooked dump of the store is unchanged; for stores with changed stand-off members, what a reader leaves on disk must not depend on which other reader ran before it (sequential, fresh store per order). Thorough adds Miri and ThreadSanitizer runs of the reader workloads when the tools build",
   text="Reader operations (store.to_json_string, ToJson::to_json_string on a resource and a dataset, ToJson::to_json_file on a resource, ToCsv::to_csv_string on a dataset and on the store, TextResource::to_json_string, a SELECT query, QueryResultItem::to_json_string, related_text, the .parallel() adaptors) run as 2-3 threads over one shared store with inline members, with stand-off members (unchanged, changed, with a STAM JSON resource, with use_include switched off, with file:// URLs as member names); every thread parks at each read or write of the shared serialisation mode and of the changed flags and a controller grants single steps; all pairs of operations are enumerated (exhaustively where the schedule tree is small, else up to the budget, then sampled), triples are sampled, and 4-12 free-running threads stress the same pairs. Held except the recorded finding (serialising a resource or dataset toggles the mode cell shared by all clones of the configuration).",
   note="Trusted: the yield points of the verif feature cover every access to Config.serialize_mode and the changed flags; code between yield points is atomic in the controlled schedules and only exercised by the stress runs and the sanitizers. rayon worker threads are not scheduled.",
   ref="5/C20"),
 "C15": dict(
   technique="runtime monitoring: round-trip differential on stores reached by seeded histories through the STAM CSV files (manifest, annotations table, dataset tables, .txt resources) - canonical observation with values reduced to their text",
   text="Final states of seeded histories (all selector kinds incl. complex selectors with mixed and range-compressed sub-selectors, end-aligned and relative offsets, gaps, ids without ';') are saved as STAM CSV and loaded again; resources and texts, keys, data ids and value text, annotation ids, data references, targets (kinds, referenced items, absolute ranges, selected text) and every reverse lookup must be equal. Every third store is instead saved, changed by 1-3 more operations (removal of keys without data first of all), saved again to the same files and loaded: keys, data and texts must have followed. Held on the stores observed; the two temp-id findings are recorded.",
   note="Trusted: obs.rs in value-as-text mode. On stores with gaps, differences in *references* are attributed to the recorded temporary-id finding; stores without gaps are compared in full.",
   ref="5/C15"),
 "C06": dict(
   technique="runtime oracle monitor: brute-force differential - every related_text entry point vs a scan of all known selections with the public test(), on seeded geometries, for all 92 operator x modifier variants",
   text="Seeded texts with whitespace runs and 4-14 known selections (nested, crossing, adjacent, zero-width, touching both ends, both halves); references are single selections, their annotations, sets of 2-3 selections and iterators of 1-3 selections (the adaptor: related to any of them); each of the 92 operator/modifier variants is searched through ResultTextSelection, ResultItem<Annotation>, ResultTextSelectionSet and ResultItem<TextResource> related_text and compared as a multiset with the brute-force answer. Held on the geometries observed.",
   note="Trusted: the library's own test()/test_set() as oracle (judged by C13). References are bound selections. RELATION constraints in queries are exercised in C08.",
   ref="5/C06"),
 "C07": dict(
   technique="runtime oracle monitor: differential against plain-string references (std match_indices/split/trim_matches, the regex crate run directly on the slice, with the reference's own byte-to-codepoint conversion) for every search/split/trim/segmentation entry point on whole resources and sub-selections, every iterator capped at reference length + 3 so non-termination is observed",
   text="Seeded texts over ASCII, 1-4 byte codepoints and codepoints whose lower-casing changes length, with 0-5 known selections and milestone intervals 0/3/5/100; find_text, find_text_nocase, find_text_sequence, find_text_regex (1-4 expressions, capture groups, overlap on/off, precompiled set), split_text, trim_text(_with) on ResultItem<TextResource>, bound and unbound ResultTextSelection and ResultItem<TextSelection>, the store-wide searches over 2 resources, and segmentation/segmentation_in_range; results are compared with the reference as sequences of (begin, end, text), must carry the text really at those offsets, stay inside the searched range, and split/segmentation must partition it. Held on the inputs observed.",
   note="Trusted: the reference functions in harness/src/c07.rs (std and regex crate). Not judged (undocumented): case-insensitive matches cutting through the lower-case expansion of one codepoint, sequence searches where greedy and backtracking readings differ, the position of an empty trim result.",
   ref="5/C07"),
 "C08": dict(
   technique="runtime monitoring: metamorphic oracles over the same store (all constraint orders, conjunction = intersection of single-constraint answers, disjunction = duplicate-free union, LIMIT = slice, sub-query = nested iteration with bound variables, text form = built form, single-constraint query = the documented iterator-API expression or an item-level scan over 57 result-type x constraint cells), scan of the shadow model for unambiguous constraints, twin-store differential for ADD/DELETE against direct calls, unit monitors of Handles and LimitIter against std collections, and a support matrix that turns a previously answered constraint position into a violation when it starts to be refused",
   text="On stores reached by seeded histories, queries of 1-3 constraints drawn from what exists in the store (and absent ids) over the six result types are evaluated in every order, alone, as a union, with LIMIT windows in [-len-2, len+2], as printed text, through the iterator API (resource.annotations(), annotation.data(), dataset.keys(), store.annotations().filter(..data()..) and so on), and as outer{inner} sub-queries (OPTIONAL 1 in 3) against nested iteration with with_*var bindings; ADD and DELETE queries are compared with annotate()/remove() calls on a twin built by replaying the same history. Held on what was observed; one finding (OPTIONAL) is recorded.",
   note="Trusted: the nested-iteration and slice references in harness/src/c08.rs and the shadow model for ID / DATA key / DATA key op value. Constraint positions the evaluator reports as not implemented are counted, not compared; the committed support matrix (harness/data/c08-support.json) guards against a supported position becoming unsupported. LIMIT with negative begin and positive end is not judged.",
   ref="5/C08"),
 "C09": dict(
   technique="runtime monitoring: totality oracle (catch_unwind + stall watchdog) over grammar-generated, mutated and token-soup strings fed to Query::parse and TryFrom<&str>; fixpoint oracle (structural comparison through the public accessors, equality of the second print, result equality on three stores) over parsed and programmatically built queries, with delta-debugging of violating queries to name the construct at fault",
   text="Well-formed STAMQL from a grammar (SELECT/ADD/DELETE, every constraint keyword, qualifier, operator and literal type, unions, limits, attributes, two levels of sub-queries), 12 kinds of mutation of it (truncation at every character boundary, token deletion/duplication/replacement, number-like literals of any size and sign, unicode and multi-byte whitespace, quote/backslash soup, brace/bar/bracket insertion) and token soup never make the parser panic or hang; every accepted or built printable query prints to text that parses to the same structure, prints identically again and evaluates to the same rows. Held on what was observed; two root causes for built queries are recorded as findings.",
   note="Trusted: structure() in harness/src/c09.rs (Debug rendering of Constraint/Assignment leaves). Well-formed input that the parser rejects is counted, not judged. Handle-collection constraints are compared by meaning on the store they belong to, as sorted rows.",
   ref="5/C09"),
 "C10": dict(
   technique="runtime monitoring: exactly-once oracle over the event log (shadow model predicts which data handle every request must map to), dedup invariants on the live sets, index-vs-scan differential for every data search route, and an independent reference implementation of the documented DataOperator semantics on a value x operator cross product",
   text="Seeded histories of data insertions through datasets, insert_data and annotations (with/without ids, repeated key/value pairs) and removals of data and keys; after every operation the returned handles are compared with the model's exactly-once prediction, the live sets are scanned for duplicate id-less (key,value) items and duplicate keys, and key.data()/find_data/test_data/data_by_value are compared with a full scan; DataValue::test is compared with a reference written from the doc comments over 25 values x ~100 operators incl. nested Not/And/Or. Held on what was observed.",
   note="Trusted: ref_test() in harness/src/c10.rs; NaN excluded; Bool-vs-string, Int-vs-EqualsFloat, Float-vs-EqualsInt not judged (undocumented).",
   ref="5/C10"),
 "C11": dict(
   technique="runtime monitoring: round-trip differential on stores reached by seeded histories - hooked dump of all stores, id maps, reverse indices and position indices compared entry by entry between the saved and the loaded store, plus observation with handles, search answers and re-serialisation to JSON",
   text="Final states of seeded histories (gaps, protect_text, all selector kinds; 1 in 4 with an extra annotation that names the same target twice, so that reverse-index entries repeat) are saved as CBOR and loaded again (shrink_to_fit on/off); the dumps of every index must be equal entry by entry, the canonical observation including handles and every reverse lookup must be equal, segmentation/find_text/related_text answers and the rows of 8 seeded queries must be equal and both stores must serialise to the same STAM JSON. Held on the stores observed.",
   note="Trusted: the dump hook; run-time state (changed flags, serialize-mode cell, caller-supplied debug/shrink settings) is excluded as documented.",
   ref="5/C11"),
 "C12": dict(
   technique="runtime oracle monitor: exhaustive position/byte sweeps against a naive char_indices table under 12 configurations (milestone interval x shrink_to_fit) before/after index population + differential replay of one seeded history under all 12 configurations (observations and search answers must be identical)",
   text="Every codepoint position 0..=len+2 and every byte offset 0..=bytes+2 of seeded texts over 1-4 byte codepoints (short texts with every sub-range, long texts of 90-260 codepoints) is converted through utf8byte / utf8byte_to_charpos / text_by_offset on the resource and on bound and unbound sub-selections, for milestone intervals 0,1,2,3,7,100 x shrink on/off, before and after annotations populate the position index; the same seeded op-history is replayed under all 12 configurations and the complete observation plus segmentation/find_text/related_text answers are compared. Held on what was swept.",
   note="Trusted: str::char_indices as reference. utf8byte on a selection beyond the selection's own length is not judged.",
   ref="5/C12"),
 "C13": dict(
   technique="runtime oracle monitor: exhaustive enumeration of range pairs / small set pairs against interval-arithmetic reference + algebraic laws, panics caught per call",
   text="Every ordered pair of ranges of several 7-codepoint texts (incl. zero-width, whitespace layouts) and every ordered pair of sets of size<=2 over a 10-range universe is run through the real test/test_set entry points for all 92 operator x modifier variants; each answer is compared with an interval-arithmetic reference and the converse/symmetry/implication/complement laws. Exhaustive within that bound, nothing beyond it.",
   note="Trusted: the 60-line reference in harness/src/c13.rs; README reading of the set semantics; overlap with empty ranges and limit+all on sets are left undefined (laws only).",
   ref="5/C13"),
}

PENDING_REASON = "monitor not built yet in this revision (work in progress; see DESIGN.md section 9) - not claimed"

def main():
    props = [json.loads(l) for l in open(os.path.join(ROOT, "properties.jsonl"))]
    commits = subprocess.run(["git", "-C", "/repo", "log", "--format=%h %s"], stdout=subprocess.PIPE, text=True).stdout.splitlines()
    hook_commits = [c.split()[0] for c in commits if c.split(" ", 1)[1].startswith("verif hooks")]
    checks, na = [], []
    for p in props:
        pid = p["id"]
        if pid in CHECKS:
            c = CHECKS[pid]
            checks.append({
                "property_id": pid,
                "quick_cmd": "./check %s --tier quick" % pid,
                "thorough_cmd": "./check %s --tier thorough" % pid,
                "evidence_file": "/verif/evidence/%s.json" % pid,
                "replay_cmd_template": "./check %s --replay {path}" % pid,
                "engine": "stamverif-monitor",
                "level_claimed": {"category": "exploration", "text": c["text"], "design_ref": c["ref"]},
                "level_note": c["note"],
                "technique": c["technique"],
            })
        else:
            na.append({"property_id": pid, "reason": NA.get(pid, PENDING_REASON)})
    manifest = {
        "version": 1,
        "setup_cmd": "cd /verif && CARGO_NET_OFFLINE=true cargo build --offline --manifest-path harness/Cargo.toml --target-dir /verif/target",
        "hooks": {
            "guard": "cargo features `verif` (yield points, query-error note) and `verif-dump` (read-only state dump) of the stam crate, both off by default",
            "enable": "the harness depends on stam = { path = \"/repo\", features = [\"verif\"] } and enables stam/verif-dump through its default feature `dump`; ./check falls back to --no-default-features (API-only) if the dump stops compiling",
            "baseline_off_cmd": "cd /repo && cargo test --workspace --no-fail-fast --offline",
            "source_commits": hook_commits,
            "add_only": True,
        },
        "engines": [{
            "name": "stamverif-monitor",
            "path": "/verif/harness",
            "serves_properties": sorted(CHECKS),
            "kind_free_text": "Rust harness linking the real library built from /repo's working tree: seeded workload generators, shadow reference model, invariant checker over a hooked state dump, differential/metamorphic oracles, deterministic yield-point scheduler; python3 driver ./check shards, merges, filters known findings and writes evidence",
        }],
        "checks": checks,
        "not_applicable": na,
        "notes": "All checks are runtime monitors (exploration level): verdicts are 'held on the executions observed' or 'violated with replay'; inconclusive runs exit 1 without a VIOLATION line. Known findings: KNOWN_FINDINGS.txt. Seeded breakages used to validate the monitors: seeded/.",
    }
    with open(os.path.join(ROOT, "MANIFEST.json"), "w") as f:
        json.dump(manifest, f, indent=1)
        f.write("\n")

NA = {}

if __name__ == "__main__":
    main()
