#!/bin/bash
# usage: try_seed.sh <patchdir> <CHECK>...   applies patch.diff to /repo, runs the checks (quick), reverts
D=$1; shift
git -C /repo status --short | grep -q . && { echo "/repo dirty"; exit 2; }
git -C /repo apply $D/patch.diff || { echo "patch does not apply"; exit 2; }
for c in "$@"; do
  out=$(cd /verif && ./check $c 2>&1)
  echo "$c: exit=$? $(echo "$out" | grep -c '^VIOLATION') violations; first: $(echo "$out" | grep -m2 '^VIOLATION\|^INCONCLUSIVE\|^OK' | cut -c1-260)"
done
git -C /repo checkout -- .
