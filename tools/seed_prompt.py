#!/usr/bin/env python3
"""usage: seed_prompt.py <ID> <n>  -> creates worktree /tmp/seed-<ID>-<n> of /repo HEAD and prints the sub-agent prompt"""
import json, subprocess, sys, os
pid, n = sys.argv[1], sys.argv[2]
hint = sys.argv[3] if len(sys.argv) > 3 else ""
wt = "/tmp/seed-%s-%s" % (pid, n)
out = "/tmp/seed-out/%s-%s" % (pid, n)
os.makedirs(out, exist_ok=True)
if not os.path.exists(wt):
    subprocess.run(["git", "-C", "/repo", "worktree", "add", "--detach", wt, "HEAD"], check=True, stdout=subprocess.DEVNULL, stderr=subprocess.DEVNULL)
    subprocess.run(["cp", "/repo/Cargo.lock", wt + "/Cargo.lock"], check=True)
p = [json.loads(l) for l in open("/verif/properties.jsonl") if json.loads(l)["id"] == pid][0]
print(f"""You are helping to test a verification framework for the Rust library `stam` (stam-rust 0.16.5, a stand-off text annotation store). Your job is to play the role of a developer who introduces a *subtle regression*.

Work ONLY inside the git worktree `{wt}` (a checkout of the library). Never touch /repo or /verif, and do not read anything under /verif. The sandbox is offline: always build with `cargo ... --offline` (dependencies are already vendored in the cargo cache; `{wt}/Cargo.lock` is in place).

The property that must be broken:

  Title: {p['title']}
  Statement: {p['statement']}
  It must hold: {p['quantifier']['text']}

Task: make ONE small, realistic change to the library source under `{wt}/src` (the kind of slip a maintainer could make in a refactor or "optimisation": an off-by-one, a swapped comparison, a skipped index update, a wrong map, a dropped branch, a changed default...) such that

 1. the crate still compiles (`cargo build --offline`) and the EXISTING test suite still passes completely: run `cd {wt} && cargo test --workspace --no-fail-fast --offline 2>&1 | grep -E "^test result|FAILED|panicked"` and make sure there are no failures (one test, `test_write_include`, is known to be flaky and may be ignored);
 2. the property above is violated for SOME inputs/histories, but NOT in ordinary simple use: the violation should need something specific to manifest - a multi-step sequence of operations, an unusual input (multi-byte text, zero-width or end-of-text selections, gaps left by removals, a particular operator/modifier combination, ...), or two code sites that each look fine alone. Do not make a change that breaks everything at once.
 3. you write a demonstration: a new integration test file `{wt}/tests/seed_demo.rs` (using only the public API, `use stam::*;`) that FAILS with your change and PASSES on the unchanged code. Verify both: run it with your change (`cargo test --offline --test seed_demo`), then save your change with `git diff -- src > /tmp/seed-out/{pid}-{n}/patch.diff`, revert it with `git apply -R /tmp/seed-out/{pid}-{n}/patch.diff`, run the demo again to see it pass, then re-apply with `git apply /tmp/seed-out/{pid}-{n}/patch.diff`. Do NOT use `git stash` (the stash is shared with other worktrees).
{hint}
Deliverables (write them exactly here):
 - `{out}/patch.diff`  : output of `cd {wt} && git diff -- src` (only the library change, not the demo test)
 - `{out}/seed_demo.rs`: the demonstration test file
 - `{out}/meta.json`   : {{"property": "{pid}", "summary": "<one sentence: what was changed>", "needs": "<what is needed for the violation to manifest>", "verified": "<the commands you ran and what you saw>"}}

When done, delete the build output to save disk: `rm -rf {wt}/target`. Do not commit anything. Keep the final answer short: the summary and the 'needs' sentence.""")
