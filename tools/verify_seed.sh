#!/bin/bash
# usage: verify_seed.sh <ID> <n>
# Confirms a seeded change in a fresh scratch worktree: (1) the patch applies, the crate builds and the existing suite passes with it,
# (2) the demo fails with the change and (3) passes without it. Stores it under /verif/seeded/<ID>-<n>. Removes the worktree afterwards.
set -u
ID=$1; N=$2
WT=/tmp/vseed-$ID-$N; OUT=/tmp/seed-out/$ID-$N; DEST=/verif/seeded/$ID-$N
LOG=$OUT/verify.log
: > $LOG
[ -f $OUT/patch.diff ] || { echo "no patch" | tee -a $LOG; exit 2; }
git -C /repo worktree remove --force /tmp/seed-$ID-$N >/dev/null 2>&1
git -C /repo worktree remove --force $WT >/dev/null 2>&1
git -C /repo worktree add --detach $WT HEAD >>$LOG 2>&1 || exit 2
cp /repo/Cargo.lock $WT/Cargo.lock
cd $WT || exit 2
export CARGO_NET_OFFLINE=true
git apply $OUT/patch.diff >>$LOG 2>&1 || { echo "REJECTED $ID-$N: patch does not apply to HEAD" | tee -a $LOG; cd /; git -C /repo worktree remove --force $WT; exit 1; }
echo "== suite WITH change (must pass)" >>$LOG
cargo test --workspace --no-fail-fast --offline -- --skip test_write_include > $OUT/suite.log 2>&1
grep -E "^test result|^test .* FAILED|^error" $OUT/suite.log >>$LOG
SUITE_BAD=$(grep -cE "^test .* FAILED|^error" $OUT/suite.log)
cp $OUT/seed_demo.rs tests/seed_demo.rs
echo "== demo WITH change (must fail)" >>$LOG
cargo test --offline --test seed_demo > $OUT/demo_with.log 2>&1; R1=$?
grep -E "^test |^error" $OUT/demo_with.log >>$LOG
git apply -R $OUT/patch.diff >>$LOG 2>&1
echo "== demo WITHOUT change (must pass)" >>$LOG
cargo test --offline --test seed_demo > $OUT/demo_without.log 2>&1; R0=$?
grep -E "^test |^error" $OUT/demo_without.log >>$LOG
echo "R0(without)=$R0 R1(with)=$R1 suite_bad=$SUITE_BAD" | tee -a $LOG
if [ $R0 -eq 0 ] && [ $R1 -ne 0 ] && [ $SUITE_BAD -eq 0 ]; then
  mkdir -p $DEST && cp $OUT/patch.diff $OUT/seed_demo.rs $OUT/meta.json $DEST/ 2>/dev/null
  echo "CONFIRMED $ID-$N" | tee -a $LOG; RC=0
else
  echo "REJECTED $ID-$N" | tee -a $LOG; RC=1
fi
cd /; git -C /repo worktree remove --force $WT
exit $RC
