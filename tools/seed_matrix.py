#!/usr/bin/env python3
"""usage: seed_matrix.py [ID-n ...]   (default: every directory under /verif/seeded)
For each seeded change: apply patch.diff to /repo, run the check of its property (quick; thorough if quick
stays silent), record what fired in seeded/<id>/meta.json ("confirmed", "caught_by"), revert /repo.
Prints a markdown table."""
import json, os, subprocess, sys, glob

ROOT = "/verif"
# a change in one property's mechanism that is decided by another property's check (C06 uses the library's test() as its
# oracle; what test() means is C13's business)
ALSO = {"C06-3": ["C13"], "C06-12": ["C13"], "C12-11": ["C07"], "C18-11": ["C04"], "C08-13": ["C10"], "C06-14": ["C13"], "C04-14": ["C12"], "C18-14": ["C01"], "C16-17": ["C01"]}

def sh(cmd, **kw):
    return subprocess.run(cmd, shell=True, stdout=subprocess.PIPE, stderr=subprocess.STDOUT, text=True, **kw)

def run_check(prop, tier):
    r = sh("cd %s && ./check %s --tier %s" % (ROOT, prop, tier))
    sigs = [l.split("sig=", 1)[1].strip() for l in r.stdout.splitlines() if l.startswith("VIOLATION") and "sig=" in l]
    verdict = [l for l in r.stdout.splitlines() if l.startswith(("OK ", "INCONCLUSIVE"))]
    return r.returncode, sigs, verdict

def main():
    ids = sys.argv[1:] or sorted(os.path.basename(d) for d in glob.glob(ROOT + "/seeded/*"))
    if sh("git -C /repo status --short").stdout.strip():
        print("/repo is dirty"); sys.exit(2)
    rows = []
    for sid in ids:
        d = os.path.join(ROOT, "seeded", sid)
        meta = json.load(open(os.path.join(d, "meta.json"), encoding="utf-8"))
        prop = meta["property"]
        a = sh("git -C /repo apply %s/patch.diff" % d)
        if a.returncode != 0:
            # the tree moved on (later repairs touched the same lines): try a three-way apply
            a = sh("git -C /repo apply --3way %s/patch.diff" % d)
        if a.returncode != 0:
            sh("git -C /repo reset -q --hard")
            meta["caught_by"] = {"status": "patch no longer applies to the current tree", "detail": a.stdout[-300:]}
            rows.append((sid, meta["summary"], "patch no longer applies", ""))
        else:
            rc, sigs, verdict = run_check(prop, "quick")
            tier = "quick"
            if not sigs:
                rc, sigs, verdict = run_check(prop, "thorough")
                tier = "thorough"
            if not sigs:
                for other in ALSO.get(sid, []):
                    rc, sigs, verdict = run_check(other, "quick")
                    if sigs:
                        prop, tier = other, "quick"
                        break
            sh("git -C /repo reset -q --hard")
            meta["caught_by"] = {"check": prop, "tier": tier, "exit": rc, "violations": len(sigs), "first_signatures": sigs[:4],
                                 "command": "git -C /repo apply seeded/%s/patch.diff; ./check %s --tier %s; git -C /repo checkout -- ." % (sid, prop, tier)}
            rows.append((sid, meta["summary"], ("%s %s: %d signatures" % (prop, tier, len(sigs))) if sigs else "NOT CAUGHT", "; ".join(sigs[:2])))
        meta.setdefault("confirmed", "tools/verify_seed.sh %s: fresh worktree of /repo HEAD; `cargo test --workspace --no-fail-fast --offline -- --skip test_write_include` passes with the change; `cargo test --offline --test seed_demo` fails with the change and passes after `git apply -R`" % sid.replace("-", " "))
        json.dump(meta, open(os.path.join(d, "meta.json"), "w", encoding="utf-8"), indent=1, ensure_ascii=False)
        print("%s: %s" % (sid, rows[-1][2]), flush=True)
    print()
    print("| seed | change (agent's summary, shortened) | caught by | first signatures |")
    print("|---|---|---|---|")
    for sid, summary, caught, sigs in rows:
        s = summary.replace("|", "\\|").replace("\n", " ")
        if len(s) > 210:
            s = s[:207] + "…"
        g = sigs.replace("|", "\\|")
        if len(g) > 200:
            g = g[:197] + "…"
        print("| %s | %s | %s | `%s` |" % (sid, s, caught, g))

main()
