#!/usr/bin/env python3
import json,sys
r=json.load(sys.stdin)
print("evals",r['evaluations'],"distinct",len(r['distinct']),"cases",r['cases'])
full = len(sys.argv)>1
for v in sorted(r['violations'], key=lambda v:-v['count'])[:int(sys.argv[2]) if len(sys.argv)>2 else 100]:
    print(v['count'], v['sig'])
    if full:
        d=dict(v['detail']); h=d.pop('history',None)
        print("     ", json.dumps(d,ensure_ascii=False)[:int(sys.argv[1])])
        if h:
            for o in h['ops'][-6:]: print("        ", json.dumps(o,ensure_ascii=False)[:int(sys.argv[1])])
h=r['hist']
print({k:v for k,v in h.items() if k.startswith('history-ended')})
