#!/usr/bin/env python3
import json,sys
r=json.load(sys.stdin)
print("evals",r['evaluations'],"distinct",len(r['distinct']),"cases",r['cases'])
full = len(sys.argv)>1
for v in sorted(r['violations'], key=lambda v:-v['count']):
    print(v['count'], v['sig'])
    if full: print("     ", json.dumps(v['detail'],ensure_ascii=False)[:int(sys.argv[1])])
h=r['hist']
print({k:v for k,v in h.items() if k.startswith('history-ended')})
