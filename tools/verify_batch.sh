#!/bin/bash
# usage: verify_batch.sh "C13 1" "C12 1" ...   (sequential)
for s in "$@"; do /verif/tools/verify_seed.sh $s > /tmp/seed-out/vrfy-$(echo $s | tr ' ' '-').out 2>&1; done
