#!/usr/bin/env python3
"""Regenerates the three generated tables of DESIGN.md section 10 (fixed defects, known findings, seeded changes)
from KNOWN_FINDINGS.txt and seeded/*/meta.json. Tables sit between <!-- X_BEGIN --> / <!-- X_END --> markers."""
import re, glob, os, json
ROOT = "/verif"

def fixed_table():
    kf = open(ROOT + "/KNOWN_FINDINGS.txt", encoding="utf-8").read().splitlines()
    rows = []
    for l in kf:
        m = re.match(r"fixed: property=(C\d+) (\S+) (.*)", l)
        if m:
            rows.append(m.groups())
    rows.sort()
    out = ["| property | commit | what failed (input, call site or history) |", "|---|---|---|"]
    for p, h, w in rows:
        w = w.replace("|", "\\|")
        if len(w) > 230:
            w = w[:227] + "…"
        out.append("| %s | `%s` | %s |" % (p, h, w))
    return "\n".join(out) + "\n", len(rows)

def finding_table():
    kf = open(ROOT + "/KNOWN_FINDINGS.txt", encoding="utf-8").read().splitlines()
    out = ["| property | signature (exact key in KNOWN_FINDINGS.txt) | root cause, failing input | why recorded, not repaired |", "|---|---|---|---|"]
    n = 0
    for l in kf:
        m = re.match(r"finding: property=(C\d+) sig=(\S+) :: (.*)", l)
        if not m:
            continue
        n += 1
        p, s, d = m.groups()
        d = d.replace("|", "\\|")
        why = ""
        mm = re.search(r"(Not repaired:|Recorded, not repaired:)(.*)$", d)
        if mm:
            why = mm.group(2).strip()
            d = d[:mm.start()].strip()
        if len(d) > 330:
            d = d[:327] + "…"
        if len(why) > 200:
            why = why[:197] + "…"
        out.append("| %s | `%s` | %s | %s |" % (p, s, d, why or "same root cause as the entry above it"))
    return "\n".join(out) + "\n", n

def seed_table():
    rows = []
    for d in sorted(glob.glob(ROOT + "/seeded/*")):
        sid = os.path.basename(d)
        m = json.load(open(d + "/meta.json", encoding="utf-8"))
        cb = m.get("caught_by", {})
        s = m["summary"].replace("|", "\\|").replace("\n", " ")
        if len(s) > 200:
            s = s[:197] + "…"
        sig = "; ".join(cb.get("first_signatures", [])[:1]).replace("|", "\\|")
        if len(sig) > 150:
            sig = sig[:147] + "…"
        rows.append("| %s | %s | %s %s (%d sig.) | `%s` |" % (sid, s, cb.get("check", "?"), cb.get("tier", "?"), cb.get("violations", 0), sig))
    return "| seed | change (agent's summary, shortened) | caught by | first signature |\n|---|---|---|---|\n" + "\n".join(rows) + "\n", len(rows)

def put(s, name, body):
    b, e = "<!-- %s_BEGIN -->" % name, "<!-- %s_END -->" % name
    i, j = s.index(b) + len(b), s.index(e)
    return s[:i] + "\n" + body + s[j:]

p = ROOT + "/DESIGN.md"
s = open(p, encoding="utf-8").read()
ft, nf = fixed_table()
kt, nk = finding_table()
st, ns = seed_table()
s = put(s, "FIXED_TABLE", ft)
s = put(s, "FINDING_TABLE", kt)
s = put(s, "SEED_TABLE", st)
open(p, "w", encoding="utf-8").write(s)
print("fixed", nf, "findings", nk, "seeds", ns)
